"""Reference fold for C19: what replaying server notifications implies for
rooms and users.  Plain dict/set code written from the property statement
("join adds, leave removes, grant adds, revoke removes, lists replace")."""
from __future__ import annotations
import copy


class RefRoom:
    def __init__(self, name, private=False):
        self.name = name
        self.private = private
        self.users: list[str] = []
        self.joined = False
        self.tickers: dict[str, str] = {}
        self.members: set[str] = set()
        self.owner = None
        self.operators: set[str] = set()

    def key(self):
        return (self.name, self.private, tuple(sorted(self.users)), self.joined,
                tuple(sorted(self.tickers.items())), tuple(sorted(self.members)), self.owner,
                tuple(sorted(self.operators)))


class RefState:
    """me: the logged in user (always referenced through the session)"""

    def __init__(self, me: str):
        self.me = me
        self.rooms: dict[str, RefRoom] = {}
        # user records exist only while the user is referenced by a room (or is me): the library keeps
        # users in a weak dictionary, so an unreferenced user is forgotten
        self.users: dict[str, dict] = {me: self._fresh(me)}
        self.privileged_list: set[str] = set()

    def _fresh(self, name):
        return {'status': 'UNKNOWN', 'stats': None, 'privileged': name in getattr(self, 'privileged_list', set())}

    def clone(self):
        return copy.deepcopy(self)

    def room(self, name, private=False) -> RefRoom:
        if name not in self.rooms:
            self.rooms[name] = RefRoom(name, private)
        return self.rooms[name]

    def referenced(self) -> set[str]:
        out = {self.me}
        for r in self.rooms.values():
            out.update(r.users)
        return out

    def touch(self, name) -> dict:
        """record of a user that a message mentions; it survives only if referenced afterwards"""
        if name not in self.users:
            self.users[name] = self._fresh(name)
        return self.users[name]

    def gc(self):
        ref = self.referenced()
        for name in list(self.users):
            if name not in ref:
                del self.users[name]

    def key(self):
        return (tuple(sorted(r.key() for r in self.rooms.values())),
                tuple(sorted((n, u['status'], u['stats'], u['privileged']) for n, u in self.users.items())),
                tuple(sorted(self.privileged_list)))

    # --- the fold ------------------------------------------------------------------------------
    def apply(self, kind: str, a: dict) -> list[tuple]:
        """applies one notification; returns the expected public events as
        (event class name, room name or None, user name or None)"""
        me = self.me
        ev: list[tuple] = []
        if kind == 'RoomList':
            for name in a['public']:
                self.room(name, False)
            for name in a['owned']:
                self.room(name, True).owner = me
            for name in a['member']:
                self.room(name, True).members.add(me)
            for name in a['operated']:
                self.room(name, True).operators.add(me)
            mentioned = set(a['public']) | set(a['owned']) | set(a['member'])
            for name in list(self.rooms):
                if name not in mentioned:
                    del self.rooms[name]
            for name, room in self.rooms.items():
                if name not in a['owned'] and room.owner == me:
                    room.owner = None
                if name not in a['operated']:
                    room.operators.discard(me)
                if name not in a['member']:
                    room.members.discard(me)
                room.private = name not in a['public']
            ev.append(('RoomListEvent', None, None))
        elif kind == 'JoinRoom':
            room = self.room(a['room'])
            room.joined = True
            room.private = bool(a['owner'])
            room.users = []                       # lists replace
            for name, status, stats in a['users']:
                u = self.touch(name)
                u['status'] = status
                u['stats'] = stats
                if name not in room.users:
                    room.users.append(name)
            room.owner = a['owner']
            room.operators = set(a['operators'] or [])
            ev.append(('RoomJoinedEvent', a['room'], None))
        elif kind == 'LeaveRoom':
            room = self.room(a['room'])
            room.joined = False
            room.users = []
            ev.append(('RoomLeftEvent', a['room'], None))
        elif kind == 'UserJoinedRoom':
            u = self.touch(a['user'])
            u['status'] = a['status']
            u['stats'] = a['stats']
            room = self.room(a['room'])
            if a['user'] not in room.users:
                room.users.append(a['user'])
            ev.append(('RoomJoinedEvent', a['room'], a['user']))
        elif kind == 'UserLeftRoom':
            room = self.room(a['room'])
            if a['user'] in room.users:
                room.users.remove(a['user'])
            ev.append(('RoomLeftEvent', a['room'], a['user']))
        elif kind == 'GrantMembership':
            self.room(a['room'], True).members.add(a['user'])
            ev.append(('RoomMembershipGrantedEvent', a['room'], a['user']))
        elif kind == 'RevokeMembership':
            room = self.room(a['room'], True)
            room.members.discard(a['user'])
            room.operators.discard(a['user'])
            ev.append(('RoomMembershipRevokedEvent', a['room'], a['user']))
        elif kind == 'MembershipGranted':
            self.room(a['room'], True).members.add(me)
            ev.append(('RoomMembershipGrantedEvent', a['room'], None))
        elif kind == 'MembershipRevoked':
            room = self.room(a['room'], True)
            room.members.discard(me)
            room.operators.discard(me)
            ev.append(('RoomMembershipRevokedEvent', a['room'], None))
        elif kind == 'GrantOperator':
            self.room(a['room'], True).operators.add(a['user'])
            ev.append(('RoomOperatorGrantedEvent', a['room'], a['user']))
        elif kind == 'RevokeOperator':
            self.room(a['room'], True).operators.discard(a['user'])
            ev.append(('RoomOperatorRevokedEvent', a['room'], a['user']))
        elif kind == 'OperatorGranted':
            self.room(a['room'], True).operators.add(me)          # grant adds
            ev.append(('RoomOperatorGrantedEvent', a['room'], None))
        elif kind == 'OperatorRevoked':
            self.room(a['room'], True).operators.discard(me)
            ev.append(('RoomOperatorRevokedEvent', a['room'], None))
        elif kind == 'Members':
            self.room(a['room'], True).members = set(a['names'])
            ev.append(('RoomMembersEvent', a['room'], None))
        elif kind == 'Operators':
            self.room(a['room'], True).operators = set(a['names'])
            ev.append(('RoomOperatorsEvent', a['room'], None))
        elif kind == 'Tickers':
            self.room(a['room']).tickers = dict(a['tickers'])
            ev.append(('RoomTickersEvent', a['room'], None))
        elif kind == 'TickerAdded':
            self.room(a['room']).tickers[a['user']] = a['ticker']
            ev.append(('RoomTickerAddedEvent', a['room'], a['user']))
        elif kind == 'TickerRemoved':
            self.room(a['room']).tickers.pop(a['user'], None)
            ev.append(('RoomTickerRemovedEvent', a['room'], a['user']))
        elif kind == 'RoomChat':
            if not a['blocked']:
                self.room(a['room'])
                ev.append(('RoomMessageEvent', a['room'], a['user']))
        elif kind == 'PublicChat':
            if not a['blocked']:
                self.room(a['room'])
                ev.append(('PublicMessageEvent', a['room'], a['user']))
        elif kind == 'PrivateChat':
            if not a['blocked']:
                ev.append(('PrivateMessageEvent', None, a['user']))
        elif kind == 'UserStatus':
            u = self.touch(a['user'])
            u['status'] = a['status']
            u['privileged'] = a['privileged']
            ev.append(('UserStatusUpdateEvent', None, a['user']))
        elif kind == 'UserStats':
            u = self.touch(a['user'])
            u['stats'] = a['stats']
            ev.append(('UserStatsUpdateEvent', None, a['user']))
        elif kind == 'PrivilegedUsers':
            self.privileged_list = set(a['names'])
            for name, u in self.users.items():
                u['privileged'] = name in self.privileged_list
            ev.append(('PrivilegedUsersEvent', None, None))
        elif kind == 'AddPrivilegedUser':
            self.touch(a['user'])['privileged'] = True
            ev.append(('PrivilegedUserAddedEvent', None, a['user']))
        else:
            raise KeyError(kind)
        self.gc()
        return ev
