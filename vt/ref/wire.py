"""Independent reference codec for C01: interprets pins/layout.json with plain
``struct`` — no aioslsk code involved.  Values are plain Python (dicts for
records, lists for arrays, bytes for blobs)."""
from __future__ import annotations
import socket
import struct
import zlib

_FMT = {'uint8': '<B', 'uint16': '<H', 'uint32': '<I', 'uint64': '<Q', 'int32': '<i', 'peer_init_ticket': '<I'}


class Layout:
    def __init__(self, data: dict):
        self.classes = data['classes']
        self.records = data['records']


def enc_prim(tname: str, value, layout: Layout, subtype=None) -> bytes:
    if tname in _FMT:
        return struct.pack(_FMT[tname], value)
    if tname == 'boolean':
        return b'\x01' if value else b'\x00'
    if tname == 'string':
        raw = value.encode('utf-8')
        return struct.pack('<I', len(raw)) + raw
    if tname == 'bytearr':
        return struct.pack('<I', len(value)) + bytes(value)
    if tname == 'ipaddr':
        return bytes(reversed(socket.inet_aton(value)))
    if tname == 'array':
        out = struct.pack('<I', len(value))
        for item in value:
            out += enc_prim(subtype, item, layout)
        return out
    if tname.startswith('record:'):
        return enc_fields(layout.records[tname[7:]], value, layout)
    raise KeyError(tname)


def included(field: dict, values: dict) -> bool:
    v = values.get(field['name'])
    if field.get('optional') and v is None:
        return False
    if 'if_true' in field and not values.get(field['if_true']):
        return False
    if 'if_false' in field and values.get(field['if_false']):
        return False
    return True


def enc_fields(fields: list, values: dict, layout: Layout) -> bytes:
    out = b''
    for f in fields:
        if not included(f, values):
            continue
        out += enc_prim(f['type'], values[f['name']], layout, f.get('subtype'))
    return out


def encode_message(layout: Layout, key: str, values: dict) -> bytes:
    c = layout.classes[key]
    body = enc_fields(c['fields'], values, layout)
    if c['compressed']:
        body = zlib.compress(body)
    mid = struct.pack('<B' if c['id_width'] == 1 else '<I', c['message_id'])
    return struct.pack('<I', len(mid) + len(body)) + mid + body


def split_frame(layout: Layout, key: str, frame: bytes):
    """(declared length, message id, body) of a frame produced for class key"""
    c = layout.classes[key]
    (length,) = struct.unpack_from('<I', frame, 0)
    if c['id_width'] == 1:
        mid = frame[4]
        body = frame[5:]
    else:
        (mid,) = struct.unpack_from('<I', frame, 4)
        body = frame[8:]
    return length, mid, body


# ---- obfuscation, from SOULSEEK.rst ("Obfuscation") -----------------------------------------------------

def _rot31(key: int) -> int:
    """circular shift of 31 bits to the right of a 32 bit integer"""
    return ((key >> 31) | (key << 1)) & 0xFFFFFFFF


def obfuscate(data: bytes, key: bytes) -> bytes:
    k = int.from_bytes(key, 'little')
    out = bytearray(key)
    for i in range(0, len(data), 4):
        k = _rot31(k)
        kb = k.to_bytes(4, 'little')
        for j, b in enumerate(data[i:i + 4]):
            out.append(b ^ kb[j])
    return bytes(out)


def deobfuscate(data: bytes) -> bytes:
    key, body = data[:4], data[4:]
    return obfuscate(body, key)[4:]


# ---- marked encoding (C02): where the length/count prefixes and string contents are -------------------

def enc_prim_marked(tname, value, layout, subtype, base, marks):
    """like enc_prim, appending (kind, absolute offset, extra) to marks"""
    if tname == 'string':
        raw = value.encode('utf-8')
        marks.append(('len', base, len(raw)))
        marks.append(('str', base + 4, len(raw)))
        return struct.pack('<I', len(raw)) + raw
    if tname == 'bytearr':
        marks.append(('len', base, len(value)))
        return struct.pack('<I', len(value)) + bytes(value)
    if tname == 'array':
        marks.append(('count', base, len(value)))
        out = struct.pack('<I', len(value))
        for item in value:
            out += enc_prim_marked(subtype, item, layout, None, base + len(out), marks)
        return out
    if tname.startswith('record:'):
        return enc_fields_marked(layout.records[tname[7:]], value, layout, base, marks)
    return enc_prim(tname, value, layout, subtype)


def enc_fields_marked(fields, values, layout, base, marks):
    out = b''
    for f in fields:
        if not included(f, values):
            continue
        out += enc_prim_marked(f['type'], values[f['name']], layout, f.get('subtype'), base + len(out), marks)
    return out


def encode_body_marked(layout: Layout, key: str, values: dict):
    """(uncompressed body bytes, marks relative to the body start)"""
    marks: list = []
    body = enc_fields_marked(layout.classes[key]['fields'], values, layout, 0, marks)
    return body, marks


def frame(layout: Layout, key: str, body: bytes, compress=None) -> bytes:
    """wraps a (possibly mutated) body into a frame with a *correct* outer length prefix"""
    c = layout.classes[key]
    if compress is None:
        compress = c['compressed']
    if compress:
        body = zlib.compress(body)
    mid = struct.pack('<B' if c['id_width'] == 1 else '<I', c['message_id'])
    return struct.pack('<I', len(mid) + len(body)) + mid + body
