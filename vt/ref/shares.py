"""Reference index and matcher for C07 / C08 / C14, written from
docs/source/SOULSEEK.rst ("Query rules") and the documented add / remove rules
of the shares manager — plain Python, no regular expressions."""
from __future__ import annotations
import functools
import os


def is_word(ch: str) -> bool:
    """word characters are alphanumeric (unicode) characters; underscore separates words"""
    return ch.isalnum()


def parse_query(query: str):
    include, exclude, wildcard = set(), set(), set()
    for term in query.split():
        low = term.lower()
        if not any(is_word(c) for c in low):
            continue                      # terms without any word character are ignored
        if term.startswith('*'):
            wildcard.add(low[1:])
        elif term.startswith('-'):
            exclude.add(low[1:])
        else:
            include.add(low)
    return include, exclude, wildcard


def term_matches(term: str, path: str, wildcard: bool) -> bool:
    """<non-word char or start> [wildcard: 0+ word chars] term <non-word char or end>, case-insensitive"""
    path = path.lower()
    term = term.lower()
    if not term:
        # '*' followed by nothing: any word end qualifies — the library ignores such terms (no word character)
        return True
    start = 0
    while True:
        idx = path.find(term, start)
        if idx < 0:
            return False
        end = idx + len(term)
        right_ok = end == len(path) or not is_word(path[end])
        if wildcard:
            left_ok = True             # zero or more word characters back to a boundary always exist
        else:
            left_ok = idx == 0 or not is_word(path[idx - 1])
        if left_ok and right_ok:
            return True
        start = idx + 1


@functools.lru_cache(maxsize=None)
def query_matches(query: str, path: str) -> bool:
    include, exclude, wildcard = parse_query(query)
    if not include and not wildcard:
        return False                      # no inclusion term: nothing is returned
    for t in include:
        if not term_matches(t, path, False):
            return False
    for t in wildcard:
        if not term_matches(t, path, True):
            return False
    for t in exclude:
        if term_matches(t, path, False):
            return False
    return True


class RefShares:
    """roots: abs path -> (mode, users); index: abs file path -> (owner root, scan root, query path)"""

    def __init__(self):
        self.roots: dict[str, tuple] = {}
        self.index: dict[str, tuple] = {}

    def clone(self):
        r = RefShares()
        r.roots = dict(self.roots)
        r.index = dict(self.index)
        return r

    def innermost(self, path: str, roots=None):
        best = None
        for root in (roots if roots is not None else self.roots):
            if path == root or path.startswith(root + os.sep):
                if best is None or len(root) > len(best):
                    best = root
        return best

    def add(self, root: str, mode='everyone', users=()):
        self.roots[root] = (mode, tuple(users))
        # files below the new root that were indexed under a parent move to the new root (innermost owner)
        for f, (owner, scan_root, qp) in list(self.index.items()):
            if f.startswith(root + os.sep) and self.innermost(f) == root:
                self.index[f] = (root, scan_root, qp)

    def remove(self, root: str):
        del self.roots[root]
        for f, (owner, scan_root, qp) in list(self.index.items()):
            if owner == root:
                parent = self.innermost(f)
                if parent is None:
                    del self.index[f]
                else:
                    self.index[f] = (parent, scan_root, qp)   # returned to the parent

    def update(self, root: str, mode, users=()):
        self.roots[root] = (mode, tuple(users))

    def scan(self, root: str, disk_files):
        """disk_files: iterable of absolute file paths currently on disk"""
        for f, (owner, _, _) in list(self.index.items()):
            if owner == root:
                del self.index[f]
        for f in disk_files:
            if f.startswith(root + os.sep) and self.innermost(f) == root:
                rel = os.path.relpath(f, root)
                self.index[f] = (root, root, rel.replace('/', '\\'))

    def query(self, query: str):
        return {f for f, (_, _, qp) in self.index.items() if query_matches(query, qp)}

    def stats(self):
        dirs = set()
        for f, (owner, scan_root, qp) in self.index.items():
            subdir = qp.rsplit('\\', 1)[0] if '\\' in qp else ''
            dirs.add((owner, scan_root, subdir))
        return len(dirs), len(self.index)

    def key(self):
        return (tuple(sorted(self.roots.items())), tuple(sorted(self.index.items())))

    def locked_for(self, f: str, username: str, friends) -> bool:
        owner = self.index[f][0]
        mode, users = self.roots[owner]
        if mode == 'friends':
            return username not in friends
        if mode == 'users':
            return username not in users
        return False
