"""A full ``SoulSeekClient`` in the controlled world, logged in against the
scripted server (shared by the harnesses that need every manager attached)."""
from __future__ import annotations
from typing import Optional

from .common import ERRORS, install_virtual_time, make_settings
from .world import World
from .simnet import SimNet
from .actors import ScriptedServer, ScriptedPeer

from aioslsk.client import SoulSeekClient
from aioslsk.events import MessageReceivedEvent, ConnectionStateChangedEvent
from aioslsk.network.connection import ServerConnection


class Tap:
    """message / state observer with a global sequence (bound methods, kept alive by the world)"""

    def __init__(self, world, bus):
        self.world = world
        self.messages: list[tuple] = []     # (seq, connection, message)
        self.states: list[tuple] = []       # (seq, connection, state, reason)
        self.seq = 0
        world.keep.append(self)
        bus.register(MessageReceivedEvent, self.on_message, priority=0)
        bus.register(ConnectionStateChangedEvent, self.on_state, priority=0)

    def on_message(self, event):
        self.seq += 1
        self.messages.append((self.seq, event.connection, event.message))

    def on_state(self, event):
        self.seq += 1
        self.states.append((self.seq, event.connection, event.state, event.close_reason))


class ClientWorld:

    def __init__(self, chooser=None, horizon: float = 60.0, deviations: bool = False, settings: Optional[dict] = None,
                 lazy_exec: bool = False, losable: bool = False, settings_obj=None, shares_cache=None,
                 transfer_cache=None, **world_kwargs):
        ERRORS.records.clear()
        self.world = World(chooser=chooser, horizon=horizon, deviations=False, lazy_exec=lazy_exec, **world_kwargs)
        self._want_deviations = deviations
        self.net = SimNet(self.world, losable=losable)
        install_virtual_time(self.world)
        self.server = ScriptedServer(self.net)
        self.settings = settings_obj if settings_obj is not None else make_settings(**(settings or {}))
        self.client = SoulSeekClient(self.settings, shares_cache=shares_cache, transfer_cache=transfer_cache)
        self.tap = Tap(self.world, self.client.events)
        self.peers: dict[str, ScriptedPeer] = {}

    def start(self, login: bool = True):
        client = self.client

        async def boot():
            await client.start()
            if login:
                await client.login()
        slot = self.world.op('boot', 'start+login', boot, record=False)
        self.world.run_default_until_idle()
        self.world.deviations = self._want_deviations
        return slot

    def peer(self, name: str, ip: str, port: int = 0, obfuscated_port: int = 0, listen: bool = True) -> ScriptedPeer:
        p = ScriptedPeer(self.net, name, ip, port=port, obfuscated_port=obfuscated_port, listen=listen)
        self.peers[name] = p
        return p

    def idle(self):
        self.world.run_default_until_idle()

    def close(self):
        self.world.close()
