"""Deviation-bounded stateless explorer (iterative context bounding, DESIGN.md
§2.2): replay a choice prefix on a fresh world, take defaults afterwards,
branch on every alternative whose cumulative deviation cost stays within the
bound."""
from __future__ import annotations
import hashlib
import json
import time
from typing import Any, Callable, Optional

from .world import HarnessError, Violation, gc_tick


class Chooser:
    def __init__(self, prefix: list[int]):
        self.prefix = prefix
        self.points: list[tuple] = []   # (kind, n, costs, chosen, label)
        self.i = 0

    def choose(self, kind: str, options: list[tuple]) -> int:
        n = len(options)
        if self.i < len(self.prefix):
            c = self.prefix[self.i]
            if c >= n:
                raise HarnessError(
                    f"replay divergence at choice {self.i}: option {c} of {n} ({kind}) {options}")
        else:
            c = 0
        self.points.append((kind, n, tuple(o[1] for o in options), c, options[c][0]))
        self.i += 1
        return c

    def choices(self) -> list[int]:
        return [p[3] for p in self.points]

    def labels(self) -> list[str]:
        return [p[4] for p in self.points if p[3] != 0]

    def withheld(self) -> bool:
        """an event was held / lost and never released: 'eventually' clauses cannot be judged on this schedule"""
        held = set()
        for lbl in self.labels():
            kind, _, key = lbl.partition(':')
            if kind in ('hold', 'lose'):
                held.add(key)
            elif kind.startswith('unhold'):
                held.discard(key)
        return bool(held)


class ExploreResult:
    def __init__(self):
        self.executions = 0
        self.violations: list[dict] = []
        self.bound_completed = -1
        self.capped = False
        self.outcomes: dict[str, int] = {}
        self.nontrivial: set = set()
        self.states = 0
        self.transitions = 0
        self.samples: list[Any] = []
        self.max_points = 0

    def merge(self, other: 'ExploreResult'):
        self.executions += other.executions
        self.violations.extend(other.violations)
        self.capped = self.capped or other.capped
        for k, v in other.outcomes.items():
            self.outcomes[k] = self.outcomes.get(k, 0) + v
        self.states += other.states
        self.transitions += other.transitions
        self.max_points = max(self.max_points, other.max_points)
        if len(self.samples) < 3:
            self.samples.extend(other.samples[:3 - len(self.samples)])
        if self.bound_completed < 0:
            self.bound_completed = other.bound_completed
        else:
            self.bound_completed = min(self.bound_completed, other.bound_completed)


def outcome_digest(obs) -> str:
    return hashlib.sha1(repr(obs).encode()).hexdigest()[:16]


def explore(run_fn: Callable[[Chooser], dict], bound: int, max_exec: Optional[int] = None,
            deadline: Optional[float] = None, stop_on_first: bool = True,
            max_violations: int = 5) -> ExploreResult:
    """``run_fn(chooser)`` builds a fresh world, runs the scenario to its horizon
    and returns ``{'violations': [Violation...], 'obs': ..., 'states': set, 'transitions': int,
    'trace': [...]}``.  The DFS visits every choice sequence whose deviation
    cost is <= bound."""
    res = ExploreResult()
    stack: list[list[int]] = [[]]
    states: set = set()
    seen_sigs: set = set()
    while stack:
        if max_exec is not None and res.executions >= max_exec:
            res.capped = True
            break
        if deadline is not None and time.time() > deadline:
            res.capped = True
            break
        prefix = stack.pop()
        ch = Chooser(prefix)
        out = run_fn(ch)
        gc_tick()
        res.executions += 1
        res.transitions += out.get('transitions', 0)
        st = out.get('states')
        if st:
            states |= st
        dig = outcome_digest(out.get('obs'))
        res.outcomes[dig] = res.outcomes.get(dig, 0) + 1
        if out.get('nontrivial', True):
            res.nontrivial.add(dig)
        res.max_points = max(res.max_points, len(ch.points))
        if len(res.samples) < 2 and (res.executions == 1 or len(prefix) > 0):
            res.samples.append({'deviations': ch.labels(), 'trace': out.get('trace', [])[:40]})
        for v in out.get('violations', []):
            if v.signature in seen_sigs:
                continue
            seen_sigs.add(v.signature)
            res.violations.append({
                'clause': v.clause, 'detail': v.detail, 'signature': v.signature,
                'choices': ch.choices(), 'deviations': ch.labels(),
                'trace': out.get('trace', []), 'obs': _jsonable(out.get('obs'))})
        if res.violations and stop_on_first and len(res.violations) >= max_violations:
            res.capped = True
            break
        # branch
        cum = 0
        pts = ch.points
        for i in range(len(pts)):
            kind, n, costs, chosen, _ = pts[i]
            if i >= len(prefix):
                for alt in range(n - 1, 0, -1):
                    if cum + costs[alt] <= bound:
                        stack.append([p[3] for p in pts[:i]] + [alt])
            cum += costs[chosen]
    res.states = len(states)
    res.bound_completed = bound if not res.capped else bound - 1
    return res


def _jsonable(x):
    try:
        json.dumps(x)
        return x
    except TypeError:
        if isinstance(x, (list, tuple)):
            return [_jsonable(i) for i in x]
        if isinstance(x, dict):
            return {str(k): _jsonable(v) for k, v in x.items()}
        if isinstance(x, (set, frozenset)):
            return sorted(_jsonable(i) for i in x)
        return repr(x)
