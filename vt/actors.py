"""Scripted actors: a minimal SoulSeek server and peers (DESIGN.md §2.1).

Actors are plain callbacks invoked on delivery; they own no tasks and add no
iteration boundaries.  Frames are encoded/decoded with aioslsk's message
classes (the byte-level agreement of those classes with the pinned layout is
what C01 checks against its independent reference codec).
"""
from __future__ import annotations
import struct
from typing import Any, Callable, Optional

from aioslsk.protocol import obfuscation
from aioslsk.protocol.messages import (
    DistributedMessage,
    Login,
    PeerInit,
    PeerInitializationMessage,
    PeerMessage,
    PeerPierceFirewall,
    ServerMessage,
)

from .simnet import ActorEndpoint, ActorHandler, SimNet


class Framer:
    """Splits a byte stream into length-prefixed frames (plain or obfuscated)"""

    def __init__(self, obfuscated: bool = False):
        self.obfuscated = obfuscated
        self.buf = bytearray()
        self.raw = False

    def feed(self, data: bytes) -> list[bytes]:
        self.buf += data
        out = []
        while not self.raw:
            hdr = 8 if self.obfuscated else 4
            if len(self.buf) < hdr:
                break
            if self.obfuscated:
                length = struct.unpack('<I', obfuscation.decode(bytes(self.buf[:8])))[0]
            else:
                length = struct.unpack('<I', self.buf[:4])[0]
            if len(self.buf) < hdr + length:
                break
            frame = bytes(self.buf[:hdr + length])
            del self.buf[:hdr + length]
            if self.obfuscated:
                frame = obfuscation.decode(frame)
            out.append(frame)
        return out


def enc(message, obfuscated: bool = False, key: bytes = b'\x01\x02\x03\x04') -> bytes:
    data = message if isinstance(message, (bytes, bytearray)) else message.serialize()
    if obfuscated:
        data = obfuscation.encode(bytes(data), key=key)
    return bytes(data)


class ScriptedServer(ActorHandler):
    """The server end.  ``auto[RequestClass] = fn(server, msg)`` is called for
    each decoded request; by default Login is accepted."""
    name = 'server'

    def __init__(self, net: SimNet, ip: str = 'server.sim', port: int = 2416):
        self.net = net
        self.world = net.world
        self.ip, self.port = ip, port
        self.sessions: list[ActorEndpoint] = []
        self.end: Optional[ActorEndpoint] = None
        self.received: list[Any] = []      # decoded requests, all sessions
        self.received_t: list[tuple] = []  # (time, session index, msg)
        self.undecodable: list[bytes] = []
        self.auto: dict[type, Callable] = {}
        self.login_response: Optional[Callable] = None
        self.framers: dict[int, Framer] = {}
        self.on_session: Optional[Callable] = None
        self.eofs = 0
        self.close_on_eof = True
        net.listen_actor(ip, port, self._factory)

    def _factory(self, end: ActorEndpoint):
        return self

    def on_connected(self, end):
        self.sessions.append(end)
        self.end = end
        self.framers[id(end)] = Framer()
        if self.on_session is not None:
            self.on_session(self, end)

    def on_data(self, end, data):
        for frame in self.framers[id(end)].feed(data):
            try:
                msg = ServerMessage.deserialize_request(frame)
            except Exception:
                self.undecodable.append(frame)
                continue
            self.received.append(msg)
            self.received_t.append((self.world.now(), self.sessions.index(end), msg))
            self.handle(end, msg)

    def handle(self, end, msg):
        fn = self.auto.get(msg.__class__)
        if fn is not None:
            fn(self, msg)
        elif isinstance(msg, Login.Request):
            if self.login_response is not None:
                self.login_response(self, msg)
            else:
                self.send(Login.Response(
                    success=True, greeting='hi', ip='10.0.0.1', md5hash='x' * 32, privileged=False))

    def on_eof(self, end):
        self.eofs += 1
        if self.close_on_eof:
            end.close()

    def send(self, *messages, end: Optional[ActorEndpoint] = None):
        end = end or self.end
        for m in messages:
            end.send(enc(m))

    def of_type(self, cls) -> list:
        return [m for m in self.received if isinstance(m, cls)]


class PeerConn(ActorHandler):
    """One connection of a scripted peer (either direction)"""

    def __init__(self, peer: 'ScriptedPeer', incoming: bool, obfuscated: bool = False):
        self.peer = peer
        self.name = peer.name
        self.incoming = incoming          # True: the library connected to us
        self.end: Optional[ActorEndpoint] = None
        self.framer = Framer(obfuscated)
        self.obfuscated = obfuscated
        self.typ: Optional[str] = None    # 'P' / 'D' / 'F' once known
        self.init: Any = None
        self.received: list[Any] = []
        self.raw = bytearray()
        self.eof = False
        self.was_reset = False

    def on_connected(self, end):
        self.end = end
        self.peer.conns.append(self)
        if self.peer.on_conn is not None:
            self.peer.on_conn(self)

    def on_data(self, end, data):
        if self.framer.raw:
            self.raw += data
            if self.peer.on_raw is not None:
                self.peer.on_raw(self, data)
            return
        for frame in self.framer.feed(data):
            self._frame(frame)
        if self.framer.raw and self.framer.buf:
            rest = bytes(self.framer.buf)
            self.framer.buf.clear()
            self.raw += rest
            if self.peer.on_raw is not None:
                self.peer.on_raw(self, rest)

    def _frame(self, frame: bytes):
        try:
            if self.init is None and self.typ is None:
                msg = PeerInitializationMessage.deserialize_request(frame)
                self.init = msg
                if isinstance(msg, PeerInit.Request):
                    self.set_type(msg.typ)
                # for a pierce-firewall the script sets the type
            elif self.typ == 'D':
                msg = DistributedMessage.deserialize_request(frame)
            else:
                msg = PeerMessage.deserialize_request(frame)
        except Exception:
            self.peer.undecodable.append(frame)
            return
        self.received.append(msg)
        self.peer.received.append((self, msg))
        self.peer.received_t.append((self.peer.net.world.now(), self, msg))
        if self.peer.on_message is not None:
            self.peer.on_message(self, msg)

    def set_type(self, typ: str):
        self.typ = typ
        if typ != 'P':
            self.framer.obfuscated = False
        if typ == 'F':
            self.framer.raw = True

    def on_eof(self, end):
        self.eof = True
        if self.peer.on_eof is not None:
            self.peer.on_eof(self)
        elif self.peer.close_on_eof:
            end.close()

    def on_reset(self, end):
        self.was_reset = True
        cb = getattr(self.peer, 'on_reset', None)
        if cb is not None:
            cb(self)

    def send(self, *messages):
        for m in messages:
            self.end.send(enc(m, self.obfuscated and self.typ in (None, 'P')))

    def send_raw(self, data: bytes):
        self.end.send(data)

    def close(self):
        self.end.close()

    def reset(self):
        self.end.reset()

    @property
    def closed(self):
        return self.end.closed


class ScriptedPeer:
    """A remote peer: listens on (ip, port) / (ip, obfuscated_port), can also
    connect to the library's listening ports."""

    def __init__(self, net: SimNet, name: str, ip: str, port: int = 0, obfuscated_port: int = 0,
                 listen: bool = True):
        self.net = net
        self.name = name
        self.ip, self.port, self.obfuscated_port = ip, port, obfuscated_port
        self.conns: list[PeerConn] = []
        self.received: list[tuple] = []
        self.received_t: list[tuple] = []
        self.undecodable: list[bytes] = []
        self.on_message: Optional[Callable] = None
        self.on_conn: Optional[Callable] = None
        self.on_raw: Optional[Callable] = None
        self.on_eof: Optional[Callable] = None
        self.close_on_eof = True
        if listen and port:
            net.listen_actor(ip, port, lambda end: PeerConn(self, True, False))
        if listen and obfuscated_port:
            net.listen_actor(ip, obfuscated_port, lambda end: PeerConn(self, True, True))

    def connect(self, to_port: int, obfuscated: bool = False) -> Optional[PeerConn]:
        pc = PeerConn(self, False, obfuscated)
        end = self.net.actor_connect(pc, self.ip, to_port)
        if end is None:
            return None
        pc.on_connected(end)
        return pc

    def connect_init(self, to_port: int, typ: str, my_name: Optional[str] = None, ticket: int = 0,
                     obfuscated: bool = False) -> Optional[PeerConn]:
        pc = self.connect(to_port, obfuscated)
        if pc is None:
            return None
        pc.send(PeerInit.Request(my_name or self.name, typ, ticket))
        pc.init = 'sent'
        pc.set_type(typ)
        if typ == 'F':
            pc.framer.raw = True
        return pc

    def connect_pierce(self, to_port: int, ticket: int, typ: str, obfuscated: bool = False) -> Optional[PeerConn]:
        pc = self.connect(to_port, obfuscated)
        if pc is None:
            return None
        pc.send(PeerPierceFirewall.Request(ticket))
        pc.init = 'sent'
        pc.set_type(typ)
        return pc

    def of_type(self, cls) -> list:
        return [m for _, m in self.received if isinstance(m, cls)]
