"""Controlled world: virtual loop + environment events + choice points
(engine A, DESIGN.md §2.2).

The world owns every pending *environment event* (a chunk in flight, a connect
attempt, an executor job, a driver operation waiting to start).  At each
iteration boundary it asks the chooser which of them to admit; option 0 is the
default schedule, every other option costs deviations.
"""
from __future__ import annotations
import asyncio
import gc
import sys
from typing import Any, Callable, Optional

from .loop import VLoop, ExecutorJob


class HarnessError(Exception):
    """The harness itself misbehaved (replay divergence, cap, …) — exit 2"""


class Violation(Exception):
    def __init__(self, clause: str, detail: str = '', signature: Optional[str] = None):
        super().__init__(f"{clause}: {detail}")
        self.clause = clause
        self.detail = detail
        self.signature = signature or clause


class EnvEvent:
    __slots__ = (
        'kind', 'key', 'fire', 'chan', 'guard', 'losable', 'holdable', 'held',
        'lost', 'seq', 'cancelled', 'early_ok')

    def __init__(self, kind, key, fire, chan=None, guard=None, losable=False, holdable=True, early_ok=True):
        self.kind = kind
        self.key = key
        self.fire = fire
        self.chan = chan
        self.guard = guard
        self.losable = losable
        self.holdable = holdable
        self.early_ok = early_ok
        self.held = False
        self.lost = False
        self.cancelled = False
        self.seq = -1

    def __repr__(self):
        return f"<{self.key}>"


class DefaultChooser:
    """Always option 0; records nothing"""
    bound = 0

    def choose(self, kind, options):
        return 0


class World:

    def __init__(self, chooser=None, horizon: float = 60.0, deviations: bool = True,
                 slowcpu: bool = False, lazy_exec: bool = False, max_batches: int = 50000,
                 early: bool = True, reorder: bool = True, hold: bool = True, op_anywhere: bool = False,
                 hold_kinds=None, op_dedup: bool = False, op_at_ticks: bool = False):
        self.loop = VLoop()
        self.chooser = chooser or DefaultChooser()
        self.horizon = horizon
        self.deviations = deviations
        self.opt_slowcpu = slowcpu
        self.opt_early = early
        self.opt_reorder = reorder
        self.opt_hold = hold
        self.op_anywhere = op_anywhere
        self.hold_kinds = hold_kinds      # None = every kind may be held; else only these kinds
        # op_dedup: a held user call is offered again only when the harness' abstract state (state_fn) changed since
        # it was last offered (boundaries of idle periodic work are equivalent placements) or a time-out just fired
        self.op_dedup = op_dedup
        # op_at_ticks: a held user call may also land in the very iteration in which a periodic background tick
        # (management cycle, settings poll) fires
        self.op_at_ticks = op_at_ticks
        self._op_tick_key = None
        self._op_offer_key = None
        self.lazy_exec = lazy_exec
        self.max_batches = max_batches
        self.pending: list[EnvEvent] = []
        self._seq = 0
        self.trace: list[str] = []
        self.obs: list[Any] = []
        self.boundary_hooks: list[Callable[[], None]] = []
        self.boundaries = 0
        self._offer_held = False
        self._quiet_tick = False
        self._until = None
        self.finished = False
        self.state_keys: set = set()
        self.state_fn: Optional[Callable[[], Any]] = None
        self.closers: list[Callable[[], None]] = []
        self._old_unraisable = None
        self.unraisable: list[Any] = []
        self.loop.on_executor_job = self._on_executor_job
        self._op_threads: dict[str, list] = {}
        self.keep: list[Any] = []   # keeps weakly referenced observers alive
        self.await_cycle = False
        self.activate()

    # -- lifecycle -------------------------------------------------------------
    def activate(self):
        self.loop.activate()
        self._old_unraisable = sys.unraisablehook
        sys.unraisablehook = self._unraisable

    def _unraisable(self, unraisable):
        self.unraisable.append(repr(unraisable.exc_value))

    def now(self) -> float:
        return self.loop.time()

    def log(self, *item):
        self.obs.append((round(self.loop.time(), 6),) + item)

    # -- environment events --------------------------------------------------------
    def post(self, ev: EnvEvent) -> EnvEvent:
        ev.seq = self._seq
        self._seq += 1
        self.pending.append(ev)
        return ev

    def cancel_event(self, ev: EnvEvent):
        ev.cancelled = True
        if ev in self.pending:
            self.pending.remove(ev)

    def _heads(self, held: bool) -> list[EnvEvent]:
        """Oldest pending event of each FIFO channel (events without channel are
        all heads) whose guard holds"""
        seen = set()
        out = []
        for ev in self.pending:
            if ev.chan is not None:
                if ev.chan in seen:
                    continue
                seen.add(ev.chan)
            if ev.lost:
                continue
            if ev.held != held:
                continue
            if ev.guard is not None and not ev.guard():
                continue
            out.append(ev)
        return out

    def releasable(self) -> list[EnvEvent]:
        return self._heads(False)

    def _release(self, ev: EnvEvent, how: str):
        self.pending.remove(ev)
        self.trace.append(f"{how}:{ev.key}")
        self.loop.call_soon(ev.fire)

    def _on_executor_job(self, job: ExecutorJob):
        if self.lazy_exec:
            self.post(EnvEvent('exec', f'exec:{job.name}', job.run, chan=None, holdable=False))
        else:
            self.loop.call_soon(job.run)

    # -- driver operations -------------------------------------------------------
    def op(self, thread: str, name: str, coro_fn: Callable[[], Any], record: bool = True,
           guard: Optional[Callable[[], bool]] = None) -> dict:
        """Queues a user-level operation: a task started by the environment once
        the previous operation of the same driver thread has returned.  Returns a
        dict that receives ``result`` / ``exc`` / ``t_call`` / ``t_ret``"""
        slot: dict = {'name': name, 'state': 'waiting', 'thread': thread}
        ops = self._op_threads.setdefault(thread, [])
        prev = ops[-1] if ops else None
        ops.append(slot)

        async def body():
            slot['state'] = 'running'
            slot['t_call'] = self.loop.time()
            slot['b_call'] = self.boundaries
            if record:
                self.log('call', thread, name)
            try:
                slot['result'] = await coro_fn()
            except asyncio.CancelledError:
                slot['exc'] = 'CancelledError'
                slot['state'] = 'cancelled'
                if record:
                    self.log('ret', thread, name, 'CancelledError')
                raise
            except BaseException as exc:  # noqa
                slot['exc'] = type(exc).__name__
                slot['exc_obj'] = exc
                if record:
                    self.log('ret', thread, name, 'exc', type(exc).__name__)
            else:
                if record:
                    self.log('ret', thread, name, 'ok', _short(slot['result']))
            slot['state'] = 'done'
            slot['t_ret'] = self.loop.time()
            slot['b_ret'] = self.boundaries

        def fire():
            slot['task'] = self.loop.create_task(body(), name=f'driver-{thread}-{name}')

        extra_guard = guard

        def op_guard():
            if extra_guard is not None and not extra_guard():
                return False
            return prev is None or prev['state'] in ('done', 'cancelled')

        slot['event'] = self.post(EnvEvent('op', f'op:{thread}:{name}', fire, chan=f'driver:{thread}', guard=op_guard))
        return slot

    # -- the pump ------------------------------------------------------------------
    def _choose(self, kind: str, options: list) -> int:
        """options: list of (label, cost, action)"""
        if len(options) == 1:
            return 0
        return self.chooser.choose(kind, [(o[0], o[1]) for o in options])

    def step(self) -> bool:
        """Decides what the environment does at this iteration boundary, then
        runs one batch.  Returns False when the world is finished."""
        loop = self.loop
        if loop.batches > self.max_batches:
            raise HarnessError(f"max_batches {self.max_batches} exceeded at t={loop.time()}")
        dev = self.deviations
        advanced = False
        released_here = False
        while True:
            busy = loop.has_ready()
            rel = self.releasable()
            options: list = []
            if busy:
                options.append(('run', 0, None))
                if dev and self.opt_early:
                    for ev in rel:
                        if ev.early_ok:
                            options.append((f'early:{ev.key}', 1, ('rel', ev)))
                if dev and self.opt_slowcpu and not advanced:
                    nt = loop.next_timer()
                    if nt is not None and not nt[1] and nt[0] > loop.time() and nt[0] <= self.horizon:
                        options.append(('slowcpu', 1, ('adv',)))
            elif rel:
                first = rel[0]
                options.append((f'rel:{first.key}', 0, ('rel', first)))
                if dev:
                    if self.opt_reorder:
                        for ev in rel[1:]:
                            options.append((f'reorder:{ev.key}', 1, ('rel', ev)))
                    if self.opt_hold and first.holdable and loop.next_timer() is not None and \
                            (self.hold_kinds is None or first.kind in self.hold_kinds):
                        options.append((f'hold:{first.key}', 1, ('hold', first)))
                    if first.losable:
                        options.append((f'lose:{first.key}', 1, ('lose', first)))
            else:
                options.append(('adv', 0, ('adv',)))
            held_heads = self._heads(True)
            op_fresh = True
            if held_heads and self.op_dedup and self.state_fn is not None and not self._offer_held:
                key = self.state_fn()
                op_fresh = key != self._op_offer_key
                self._op_offer_key = key
            for ev in held_heads:
                # a held network event comes back around a one-shot deadline; a held *user call* may come at
                # any later boundary (user code runs whenever it likes)
                if self._offer_held or (ev.kind == 'op' and self.op_anywhere and not released_here
                                        and not self._quiet_tick and op_fresh):
                    options.append((f'unhold:{ev.key}', 0, ('rel', ev)))
            c = self._choose('boundary', options)
            label, _cost, action = options[c]
            if action is None:
                break
            if action[0] == 'rel':
                ev = action[1]
                ev.held = False
                self._release(ev, label.split(':', 1)[0])
                released_here = True
                continue
            if action[0] == 'hold':
                action[1].held = True
                self.trace.append(label)
                continue
            if action[0] == 'lose':
                action[1].lost = True
                self.trace.append(label)
                continue
            if action[0] == 'adv':
                if self._until is not None and not busy and self._until():
                    return False
                nt = loop.next_timer()
                if nt is None or nt[0] > self.horizon:
                    if not busy:
                        self.finished = True
                        return False
                    break
                when, periodic = nt
                loop.advance_to(when)
                advanced = True
                if label == 'slowcpu':
                    self.trace.append(f'slowcpu@{when:.4f}')
                # a held event may arrive in the very iteration the time-out fires
                self._offer_held = (not periodic) and bool(self._heads(True))
                tick_ops = []
                if periodic and self.op_anywhere and self.op_at_ticks:
                    tick_ops = [ev for ev in self._heads(True) if ev.kind == 'op']
                    if tick_ops and self.op_dedup and self.state_fn is not None:
                        key = self.state_fn()
                        if key == self._op_tick_key:
                            tick_ops = []        # same abstract state as at the last tick where this was offered
                        self._op_tick_key = key
                if self._offer_held or tick_ops:
                    opts2 = [('keep', 0, None)] + [
                        (f'unhold-before:{ev.key}', 0, ev) for ev in (self._heads(True) if self._offer_held else tick_ops)]
                    c2 = self._choose('held', opts2)
                    if c2:
                        ev = opts2[c2][2]
                        ev.held = False
                        self._release(ev, 'unhold-before')
                self._offer_held = False
                break
        was_idle = not loop.has_ready()
        loop.run_batch()
        # a batch that only ran ticks of periodic background tasks changes nothing a user call could race with
        self._quiet_tick = (was_idle or advanced) and not released_here and loop.last_batch_fired_timer \
            and not loop.last_batch_fired_oneshot and not loop.has_ready()
        self.boundaries += 1
        self._offer_held = loop.last_batch_fired_oneshot and bool(self._heads(True))
        if self.state_fn is not None:
            self.state_keys.add(self.state_fn())
        for hook in self.boundary_hooks:
            hook()
        return True

    def run(self, until: Optional[Callable[[], bool]] = None):
        """Pumps until quiescence-before-horizon (or ``until()`` is true at a boundary)"""
        self.finished = False
        self._until = until
        try:
            while True:
                if until is not None and until():
                    return
                if not self.step():
                    return
        finally:
            self._until = None

    def run_default_until_idle(self):
        """Runs with the default schedule and without moving the clock until no
        handle is ready and no event is releasable (used for set-up phases that
        are not part of the explored space)"""
        saved = self.deviations
        self.deviations = False
        try:
            while self.loop.has_ready() or self.releasable():
                self.step()
        finally:
            self.deviations = saved

    def run_default_for(self, seconds: float, deviations: bool = False):
        """A span of virtual time under the default schedule (set-up phases) or, with deviations=True, under
        the explorer's schedule"""
        saved_dev, saved_h = self.deviations, self.horizon
        self.deviations = deviations
        self.horizon = self.loop.time() + seconds
        try:
            while self.step():
                pass
            self.loop.advance_to(self.horizon)
        finally:
            self.deviations = saved_dev
            self.horizon = saved_h
            self.finished = False

    # -- inspection ------------------------------------------------------------------
    def live_tasks(self) -> list[asyncio.Task]:
        return [t for t in self.loop.all_tasks_created if not t.done()]

    def unretrieved_task_exceptions(self) -> list[str]:
        out = []
        for t in self.loop.all_tasks_created:
            if t.done() and not t.cancelled() and getattr(t, '_log_traceback', False):
                out.append(f"{t.get_name()}: {t.exception()!r}")
                # mark as seen so teardown does not print it
        return out

    def loop_errors(self) -> list[str]:
        out = []
        for ctx in self.loop.exc_contexts:
            out.append(f"{ctx.get('message')}: {ctx.get('exception')!r}")
        return out

    # -- teardown -----------------------------------------------------------------------
    def close(self):
        loop = self.loop
        try:
            for closer in self.closers:
                try:
                    closer()
                except Exception:
                    pass
            for _ in range(50):
                live = [t for t in loop.all_tasks_created if not t.done()]
                if not live:
                    break
                for t in live:
                    try:
                        t.cancel()
                    except RecursionError:
                        # two tasks awaiting each other through gather(): cancellation recurses for ever
                        self.await_cycle = True
                        _break_cycle(t)
                # complete executor jobs and pending events are simply dropped
                n = 0
                while loop.has_ready() and n < 1000:
                    loop.run_batch()
                    n += 1
                for ev in list(self.pending):
                    if ev.kind == 'exec':
                        self.pending.remove(ev)
                        try:
                            ev.fire()
                        except Exception:
                            pass
            for t in loop.all_tasks_created:
                if t.done() and not t.cancelled():
                    t._log_traceback = False
            n = 0
            while loop.has_ready() and n < 100:
                loop.run_batch()
                n += 1
            self.pending.clear()
        finally:
            loop.deactivate()
            try:
                loop.close()
            except Exception:
                pass
            loop.all_tasks_created.clear()
            loop.exc_contexts = []
            sys.unraisablehook = self._old_unraisable


def _break_cycle(task):
    """detaches a task from the future it waits for so that teardown can proceed"""
    try:
        fut = task._fut_waiter
        if fut is not None and hasattr(fut, '_children'):
            fut._children = []
        task.cancel()
    except Exception:
        pass


def find_await_cycle(tasks) -> list:
    """tasks (transitively) awaiting themselves through gather()/wait futures: returns one cycle or []"""
    def waits_on(t):
        fut = getattr(t, '_fut_waiter', None)
        out = []
        seen = set()
        stack = [fut]
        while stack:
            f = stack.pop()
            if f is None or id(f) in seen:
                continue
            seen.add(id(f))
            if isinstance(f, asyncio.Task):
                out.append(f)
                continue
            for child in getattr(f, '_children', []) or []:
                stack.append(child)
        return out
    live = [t for t in tasks if not t.done()]
    for start in live:
        path = [start]
        seen = {id(start)}
        frontier = [(start, [start])]
        while frontier:
            t, p = frontier.pop()
            for nxt in waits_on(t):
                if nxt is start:
                    return p
                if id(nxt) not in seen and not nxt.done():
                    seen.add(id(nxt))
                    frontier.append((nxt, p + [nxt]))
    return []


def _short(value):
    r = repr(value)
    return r if len(r) <= 120 else r[:117] + '...'


_gc_counter = 0


def gc_tick(every: int = 200):
    global _gc_counter
    _gc_counter += 1
    if _gc_counter % every == 0:
        gc.collect()
