"""Shared harness helpers: settings, observers, time shim"""
from __future__ import annotations
import logging
import sys
import os
import types

REPO_SRC = os.environ.get('VERIF_REPO_SRC', '/repo/src')
if REPO_SRC not in sys.path:
    sys.path.insert(0, REPO_SRC)



class _ErrorCapture(logging.Handler):
    """Collects ERROR records of the library (e.g. 'error during callback');
    everything below ERROR is filtered at the logger, so it costs nothing"""

    def __init__(self):
        super().__init__(level=logging.ERROR)
        self.records: list[str] = []

    def emit(self, record):
        try:
            msg = record.getMessage()
        except Exception:
            msg = str(record.msg)
        exc = ''
        if record.exc_info and record.exc_info[1] is not None:
            exc = f" [{type(record.exc_info[1]).__name__}: {record.exc_info[1]}]"
        self.records.append(f"{record.name}: {msg}{exc}")


ERRORS = _ErrorCapture()
_lib_logger = logging.getLogger('aioslsk')
_lib_logger.setLevel(logging.ERROR)
_lib_logger.propagate = False
_lib_logger.addHandler(ERRORS)
logging.getLogger('asyncio').setLevel(logging.CRITICAL)

from aioslsk.settings import Settings  # noqa: E402
from aioslsk.events import (  # noqa: E402
    ConnectionStateChangedEvent,
    MessageReceivedEvent,
)

SERVER_IP = 'server.sim'
SERVER_PORT = 2416
LOCAL_IP = '10.0.0.1'


_settings_cache: dict = {}


def make_settings(username='me', password='pw', port=60000, obfuscated_port=60001, _copy=True, **over) -> Settings:
    """A fresh Settings object (validated once per distinct argument set, then deep-copied)"""
    key = repr((username, password, port, obfuscated_port, sorted(over.items())))
    tmpl = _settings_cache.get(key)
    if tmpl is None:
        tmpl = _settings_cache[key] = _build_settings(username, password, port, obfuscated_port, **over)
    return tmpl.model_copy(deep=True) if _copy else tmpl


def _build_settings(username='me', password='pw', port=60000, obfuscated_port=60001, **over) -> Settings:
    data = {
        'credentials': {'username': username, 'password': password},
        'network': {
            'server': {'hostname': SERVER_IP, 'port': SERVER_PORT, 'reconnect': {'auto': False, 'timeout': 10}},
            'listening': {'port': port, 'obfuscated_port': obfuscated_port, 'error_mode': 'clear'},
            'upnp': {'enabled': False},
            'peer': {'obfuscate': False, 'connect_mode': 'race'},
        },
        'shares': {'scan_on_start': False, 'download': '/nonexistent-download-dir'},
        'debug': {'search_for_parent': False},
    }
    _deep_update(data, over)
    return Settings(**data)


def _deep_update(dst, src):
    for k, v in src.items():
        if isinstance(v, dict) and isinstance(dst.get(k), dict):
            _deep_update(dst[k], v)
        else:
            dst[k] = v


class VirtualTime(types.ModuleType):
    """Stand-in for the ``time`` module inside aioslsk modules: every clock reads
    the world's virtual clock"""

    def __init__(self, world, epoch: float = 1_700_000_000.0):
        super().__init__('time')
        self._world = world
        self._epoch = epoch

    def time(self):
        return self._epoch + self._world.loop.time()

    def monotonic(self):
        return 1000.0 + self._world.loop.time()

    def perf_counter(self):
        return 1000.0 + self._world.loop.time()

    def sleep(self, s):  # pragma: no cover
        raise RuntimeError("time.sleep in library code")


_TIME_MODULES = (
    'aioslsk.network.rate_limiter', 'aioslsk.transfer.model', 'aioslsk.transfer.manager',
    'aioslsk.room.manager', 'aioslsk.shares.manager', 'aioslsk.commands')


def install_virtual_time(world):
    import importlib
    import time as real_time
    vt = VirtualTime(world)
    mods = []
    for name in _TIME_MODULES:
        mod = importlib.import_module(name)
        if hasattr(mod, 'time'):
            mod.time = vt
            mods.append(mod)

    def restore():
        for mod in mods:
            mod.time = real_time
    world.closers.append(restore)
    return vt


class ConnObserver:
    """Records connection state changes and received messages (bound methods,
    kept alive by the world because the event bus only holds weak refs)"""

    def __init__(self, world, bus):
        self.world = world
        self.states: list[tuple] = []   # (conn, state, reason)
        self.messages: list[tuple] = []  # (conn, message)
        world.keep.append(self)
        bus.register(ConnectionStateChangedEvent, self.on_state)
        bus.register(MessageReceivedEvent, self.on_message)

    def on_state(self, event):
        self.states.append((event.connection, event.state, event.close_reason))

    def on_message(self, event):
        self.messages.append((event.connection, event.message))


# deterministic set order for the futures the library puts into asyncio.wait()
from aioslsk.network.network import ExpectedResponse, PeerFuture  # noqa: E402
from .loop import deterministic_future_hashes  # noqa: E402
deterministic_future_hashes(ExpectedResponse, PeerFuture)
