from __future__ import annotations
import argparse
import os
import sys

sys.path.insert(0, os.path.dirname(os.path.dirname(os.path.abspath(__file__))))


def main():
    ap = argparse.ArgumentParser()
    ap.add_argument('what')
    ap.add_argument('path', nargs='?')
    ap.add_argument('--tier', default=os.environ.get('VERIF_TIER', 'quick'), choices=['quick', 'thorough'])
    ap.add_argument('--workers', type=int, default=0)
    args = ap.parse_args()
    from vt import common  # noqa: F401  (sets sys.path for aioslsk, silences logging)
    from vt import runner
    if args.what == 'replay':
        sys.exit(runner.replay(args.path))
    seed = int(os.environ.get('VERIF_SEED', '0') or 0)
    pid = args.what.upper()
    modname = f'vt.h.{pid.lower()}'
    sys.exit(runner.run_check(modname, args.tier, seed, args.workers))


if __name__ == '__main__':
    main()
