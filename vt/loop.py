"""Virtual asyncio event loop (engine A, DESIGN.md §2.1).

``VLoop`` is a ``BaseEventLoop`` without selector whose clock is virtual and
whose iterations are pumped by the caller, one ``_run_once``-equivalent batch at
a time.  External (environment) callbacks are only admitted between batches via
``call_soon`` so they land after the handles that were already ready and before
the timers that become due — the order real asyncio produces.
"""
from __future__ import annotations
import asyncio
from asyncio import events, tasks
import heapq
import sys
import weakref

_MIN_SCHEDULED_TIMER_HANDLES = 100
_MIN_CANCELLED_TIMER_HANDLES_FRACTION = 0.5


class ExecutorJob:
    __slots__ = ('fn', 'args', 'future', 'name', 'done')

    def __init__(self, fn, args, future, name):
        self.fn = fn
        self.args = args
        self.future = future
        self.name = name
        self.done = False

    def run(self):
        """Runs the function now (the worker thread got scheduled) and
        completes the future"""
        self.done = True
        if self.future.cancelled():
            # a cancelled executor future still runs its function in real life
            try:
                self.fn(*self.args)
            except BaseException:
                pass
            return
        try:
            result = self.fn(*self.args)
        except BaseException as exc:  # noqa
            if isinstance(exc, (SystemExit, KeyboardInterrupt)):
                raise
            self.future.set_exception(exc)
        else:
            self.future.set_result(result)


def _fn_name(fn):
    inner = fn
    while hasattr(inner, 'func'):
        inner = inner.func
    return getattr(inner, '__name__', repr(inner))


class VTask(tasks.Task):
    """Task whose hash is its creation number: the iteration order of the
    done/pending *sets* of asyncio.wait no longer depends on object addresses,
    so replays are deterministic"""
    _vt_seq = 0

    def __hash__(self):
        return self._vt_seq


_hash_map: dict = {}     # id(future) -> first-use number (futures pinned until the next world)
_hash_keep: list = []


def _lazy_hash(self):
    key = id(self)
    h = _hash_map.get(key)
    if h is None:
        h = _hash_map[key] = len(_hash_map) + 1
        _hash_keep.append(self)
    return h


def _reset_hashes():
    _hash_map.clear()
    _hash_keep.clear()


def deterministic_future_hashes(*classes):
    """Futures of these (Python) classes hash by first-use order"""
    for cls in classes:
        cls.__hash__ = _lazy_hash


class VLoop(asyncio.BaseEventLoop):

    def __init__(self):
        super().__init__()
        self._vtime = 0.0
        self._clock_resolution = 1e-9
        _reset_hashes()
        self.all_tasks_created: list[asyncio.Task] = []
        self.exc_contexts: list[dict] = []
        self.batches = 0
        self.steps = 0
        # hook called with a new ExecutorJob; default runs it at once
        self.on_executor_job = None
        self.set_task_factory(self._vt_task_factory)
        # timers created by the sleep of a BackgroundTask.runner (periodic)
        self._periodic = weakref.WeakSet()
        self.last_batch_fired_oneshot = False
        self.last_batch_fired_timer = False

    # -- BaseEventLoop plumbing -------------------------------------------
    def time(self):
        return self._vtime

    def _process_events(self, event_list):  # pragma: no cover
        pass

    def _write_to_self(self):
        pass

    def call_exception_handler(self, context):
        self.exc_contexts.append(context)

    def set_exception_handler(self, handler):
        # the client installs its own handler in start(); we always capture
        pass

    def _vt_task_factory(self, loop, coro, **kwargs):
        task = VTask(coro, loop=loop, **kwargs)
        task._vt_seq = len(self.all_tasks_created) + 1
        self.all_tasks_created.append(task)
        return task

    def run_in_executor(self, executor, func, *args):
        future = self.create_future()
        job = ExecutorJob(func, args, future, _fn_name(func))
        if self.on_executor_job is None:
            job.run()
        else:
            self.on_executor_job(job)
        return future

    def call_at(self, when, callback, *args, context=None):
        handle = super().call_at(when, callback, *args, context=context)
        if _created_by_periodic_runner():
            self._periodic.add(handle)
        return handle

    # -- pumping -------------------------------------------------------------
    def has_ready(self) -> bool:
        return bool(self._ready)

    def _drop_cancelled_head(self):
        sched_count = len(self._scheduled)
        if (sched_count > _MIN_SCHEDULED_TIMER_HANDLES and
                self._timer_cancelled_count / sched_count > _MIN_CANCELLED_TIMER_HANDLES_FRACTION):
            new_scheduled = []
            for handle in self._scheduled:
                if handle._cancelled:
                    handle._scheduled = False
                else:
                    new_scheduled.append(handle)
            heapq.heapify(new_scheduled)
            self._scheduled = new_scheduled
            self._timer_cancelled_count = 0
        else:
            while self._scheduled and self._scheduled[0]._cancelled:
                self._timer_cancelled_count -= 1
                handle = heapq.heappop(self._scheduled)
                handle._scheduled = False

    def next_timer(self):
        """(when, periodic) of the earliest live timer or None"""
        self._drop_cancelled_head()
        if not self._scheduled:
            return None
        when = self._scheduled[0]._when
        # periodic only if every live handle due at that instant is periodic
        periodic = True
        for h in self._scheduled:
            if not h._cancelled and h._when <= when + self._clock_resolution:
                if not h in self._periodic:
                    periodic = False
                    break
        return when, periodic

    def advance_to(self, when: float):
        if when > self._vtime:
            self._vtime = when

    def run_batch(self):
        """One ``_run_once`` without the select: move due timers to the ready
        queue, run exactly the handles that are ready now."""
        self._drop_cancelled_head()
        end_time = self._vtime + self._clock_resolution
        fired_oneshot = False
        fired_timer = False
        while self._scheduled:
            handle = self._scheduled[0]
            if handle._when >= end_time:
                break
            handle = heapq.heappop(self._scheduled)
            handle._scheduled = False
            if not handle._cancelled:
                fired_timer = True
                if not handle in self._periodic:
                    fired_oneshot = True
            self._ready.append(handle)
        self.last_batch_fired_oneshot = fired_oneshot
        self.last_batch_fired_timer = fired_timer
        ntodo = len(self._ready)
        for _ in range(ntodo):
            handle = self._ready.popleft()
            if handle._cancelled:
                continue
            self.steps += 1
            handle._run()
        handle = None
        self.batches += 1

    def run_until_idle(self, max_batches: int = 10000):
        """Runs batches (without moving the clock) until nothing is ready"""
        n = 0
        while self._ready:
            self.run_batch()
            n += 1
            if n > max_batches:
                raise RuntimeError("loop does not go idle")
        return n

    # -- activation ----------------------------------------------------------
    def activate(self):
        events._set_running_loop(self)

    def deactivate(self):
        events._set_running_loop(None)


def _created_by_periodic_runner() -> bool:
    """True when the timer being created is the ``asyncio.sleep`` awaited
    directly by ``BackgroundTask.runner`` (a periodic tick, not a time-out)."""
    try:
        f = sys._getframe(2)
    except ValueError:  # pragma: no cover
        return False
    # expected stack: call_at <- call_later <- sleep <- runner
    depth = 0
    while f is not None and depth < 4:
        code = f.f_code
        if code.co_name == 'sleep' and code.co_filename.endswith('tasks.py'):
            parent = f.f_back
            if parent is None:
                return False
            pcode = parent.f_code
            if pcode.co_name != 'runner' or not pcode.co_filename.endswith('aioslsk/tasks.py'):
                return False
            owner = parent.f_locals.get('self')
            return owner.__class__.__name__ == 'BackgroundTask'
        f = f.f_back
        depth += 1
    return False
