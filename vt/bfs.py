"""Engine B — explicit-state breadth-first search over operation histories
(DESIGN.md §3).  A state is the history that reaches it; ``apply(hist, ev)``
builds fresh real objects, replays ``hist`` and applies ``ev``, returning the
canonical key of the reached state plus the violations seen on that
transition."""
from __future__ import annotations
import time
from collections import deque
from typing import Any, Callable, Iterable, Optional


class BfsResult:
    def __init__(self):
        self.states = 0
        self.transitions = 0
        self.max_depth = 0
        self.closed = False
        self.capped = False
        self.violations: list[dict] = []
        self.samples: list[Any] = []
        self.outcomes: set = set()


def bfs(initial_hists: Iterable[tuple], events: Callable[[tuple, Any], Iterable[Any]],
        apply: Callable[[tuple, Any], tuple], max_depth: int, max_states: Optional[int] = None,
        deadline: Optional[float] = None, initial_key: Optional[Callable[[tuple], Any]] = None,
        max_violations: int = 8) -> BfsResult:
    """``apply(hist, ev)`` -> (canonical_key, violations, info) where info is
    handed to ``events(hist, info)`` of the successor to enumerate its enabled
    events.  The search runs until no new canonical state appears (closure) or
    ``max_depth`` is reached."""
    res = BfsResult()
    seen: dict = {}
    frontier: deque = deque()
    sigs: set = set()
    for h in initial_hists:
        key, viols, info = apply(tuple(h), None)
        if key in seen:
            continue
        seen[key] = tuple(h)
        frontier.append((tuple(h), info, 0))
        _collect(res, viols, tuple(h), None, sigs)
    while frontier:
        hist, info, depth = frontier.popleft()
        res.max_depth = max(res.max_depth, depth)
        if depth >= max_depth:
            res.capped = True
            continue
        for ev in events(hist, info):
            if deadline is not None and time.time() > deadline:
                res.capped = True
                frontier.clear()
                break
            key, viols, info2 = apply(hist, ev)
            res.transitions += 1
            _collect(res, viols, hist, ev, sigs)
            if len(res.violations) >= max_violations:
                frontier.clear()
                res.capped = True
                break
            if viols:
                continue      # the library and the reference disagree: nothing beyond this state is meaningful
            if key not in seen:
                nh = hist + (ev,)
                seen[key] = nh
                if len(res.samples) < 3 and depth >= 1:
                    res.samples.append(list(map(_s, nh)))
                if max_states is not None and len(seen) >= max_states:
                    res.capped = True
                    continue
                frontier.append((nh, info2, depth + 1))
    res.states = len(seen)
    res.closed = not res.capped
    res.outcomes = set(hash(k) for k in seen)
    return res


def _s(x):
    return x if isinstance(x, (str, int, float, bool, type(None))) else repr(x)


def _collect(res, viols, hist, ev, sigs):
    for v in viols or []:
        if v.signature in sigs:
            continue
        sigs.add(v.signature)
        res.violations.append({
            'clause': v.clause, 'detail': v.detail, 'signature': v.signature,
            'choices': [_s(h) for h in hist] + ([_s(ev)] if ev is not None else []), 'deviations': []})
