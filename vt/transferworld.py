"""Transfer world: a full client with real files plus scripted uploader /
downloader peers that speak the transfer protocol (DESIGN.md Appendix A)."""
from __future__ import annotations
import os
import struct
from typing import Callable, Optional

from .clientworld import ClientWorld
from .actors import PeerConn, ScriptedPeer
from .world import EnvEvent

from aioslsk.protocol import messages as M
from aioslsk.protocol.primitives import UserStats

STATS = UserStats(100, 1, 10, 2)


class RemotePeer:
    """A scripted remote user: shares files we can download (uploader role) and downloads files we share
    (downloader role)"""

    def __init__(self, tw: 'TransferWorld', name: str, ip: str, port: int):
        self.tw = tw
        self.name = name
        self.ip, self.port = ip, port
        self.peer: ScriptedPeer = tw.cw.peer(name, ip, port=port)
        self.peer.on_message = self._on_message
        self.peer.on_raw = self._on_raw
        self.peer.on_conn = self._on_conn
        self.peer.on_eof = self._on_eof
        self.peer.on_reset = self._on_reset
        self.files: dict[str, bytes] = {}            # what this peer shares: remote path -> content
        self.queued: list[str] = []                  # PeerTransferQueue received
        self.queue_failed: list[tuple] = []
        self.upload_failed: list[str] = []
        self.transfer_requests: list = []            # PeerTransferRequest received (we upload)
        self.replies: list = []                      # PeerTransferReply received
        # uploader role knobs
        self.auto_offer = True                       # offer the file as soon as it is queued
        self.segment: Optional[int] = None           # send file data in chunks of this many bytes
        self.lie_filesize: Optional[int] = None      # announce another size than the real one
        self.send_extra: bytes = b''                 # dishonest: bytes after the file
        self.send_short: Optional[int] = None        # dishonest: stop after this many bytes then close
        self.next_ticket = 100
        self.auto_retry = True                       # re-offer after an attempt that broke (as a real uploader does)
        self.retries = 0
        self.max_retries = 3
        self.offers: dict[int, dict] = {}            # ticket -> {'path', 'state', 'conn', 'offset'}
        # downloader role knobs
        self.reply_mode = 'allow'                    # allow | refuse | silent
        self.offset_to_send: Callable[[str], int] = lambda path: 0
        self.received_files: dict[int, dict] = {}    # id(conn) -> {'ticket', 'data', 'closed'}
        self.close_after: Optional[int] = None       # downloader closes the file connection after k bytes
        self.expected: dict[int, tuple] = {}         # ticket -> (path, filesize) from PeerTransferRequest
        self.file_conns: list[PeerConn] = []
        self.on_offset = None                        # callback(offer dict) when the library sent its offset
        self.split_handshake: Optional[int] = None   # send the ticket / offset in pieces of this many bytes
        self.late_upload_failed = False              # PeerUploadFailed of a broken attempt only sent once the next attempt runs

    # ---- plumbing ----------------------------------------------------------------------------------------------
    def p_conn(self) -> Optional[PeerConn]:
        """an open P connection with the library (either direction)"""
        for pc in reversed(self.peer.conns):
            if pc.typ == 'P' and not pc.closed and not pc.eof:
                return pc
        return None

    def ensure_p_conn(self) -> Optional[PeerConn]:
        pc = self.p_conn()
        if pc is None:
            pc = self.peer.connect_init(60000, 'P')
        return pc

    def _on_conn(self, pc: PeerConn):
        pass

    def _on_eof(self, pc: PeerConn):
        if pc.typ == 'F':
            info = self.received_files.get(id(pc))
            if info is not None:
                info['eof'] = True
            for off in list(self.offers.values()):
                if off.get('conn') is pc:
                    off['lib_closed'] = True
                    self._attempt_over(off)
        pc.end.close()

    def _on_reset(self, pc: PeerConn):
        for off in list(self.offers.values()):
            if off.get('conn') is pc:
                off['reset'] = True
                self._attempt_over(off)

    def _attempt_over(self, off):
        """like a real uploader: an attempt that ended before everything was sent and acknowledged goes back to
        the queue and is offered again"""
        if off.get('over'):
            return
        off['over'] = True
        content = self.files.get(off['path'], b'')
        done = off.get('offset') is not None and off['offset'] + off.get('sent', 0) >= len(content) \
            and self.send_short is None
        if not done and self.auto_retry and self.retries < self.max_retries:
            self.retries += 1
            self.offer(off['path'])

    # ---- messages ---------------------------------------------------------------------------------------------
    def _on_message(self, pc: PeerConn, msg):
        if isinstance(msg, M.PeerTransferQueue.Request):
            self.queued.append(msg.filename)
            if msg.filename not in self.files:
                pc.send(M.PeerTransferQueueFailed.Request(msg.filename, 'File not shared.'))
            elif self.auto_offer:
                # like a real uploader: a file that is being sent is not offered a second time
                busy = any(o['path'] == msg.filename and not o.get('over') and o['state'] == 'sending'
                           and o.get('conn') is not None and not o['conn'].closed for o in self.offers.values())
                if not busy:
                    self.offer(msg.filename)
        elif isinstance(msg, M.PeerTransferReply.Request):
            self.replies.append(msg)
            off = self.offers.get(msg.ticket)
            if off is not None and msg.allowed and off['state'] == 'offered':
                off['state'] = 'allowed'
                self._open_file_connection(msg.ticket)
            elif off is not None and not msg.allowed:
                off['state'] = 'refused:' + str(msg.reason)
        elif isinstance(msg, M.PeerTransferRequest.Request):
            # the library wants to upload to us
            self.transfer_requests.append(msg)
            self.expected[msg.ticket] = (msg.filename, msg.filesize)
            if self.reply_mode == 'allow':
                pc.send(M.PeerTransferReply.Request(msg.ticket, True))
            elif self.reply_mode == 'refuse':
                pc.send(M.PeerTransferReply.Request(msg.ticket, False, reason='Cancelled'))
        elif isinstance(msg, M.PeerTransferQueueFailed.Request):
            self.queue_failed.append((msg.filename, msg.reason))
        elif isinstance(msg, M.PeerUploadFailed.Request):
            self.upload_failed.append(msg.filename)

    # ---- uploader role (we send a file to the library) ---------------------------------------------------
    def offer(self, path: str, ticket: Optional[int] = None):
        ticket = ticket if ticket is not None else self._ticket()
        size = self.lie_filesize if self.lie_filesize is not None else len(self.files[path])
        self.offers[ticket] = {'path': path, 'state': 'offered', 'conn': None, 'offset': None, 'sent': 0}
        pc = self.ensure_p_conn()
        if pc is not None:
            pc.send(M.PeerTransferRequest.Request(1, ticket, path, size))
        return ticket

    def _ticket(self):
        self.next_ticket += 1
        return self.next_ticket

    def _open_file_connection(self, ticket: int):
        off = self.offers[ticket]
        pc = self.peer.connect_init(60000, 'F')
        if pc is None:
            off['state'] = 'connect-failed'
            return
        off['conn'] = pc
        self.file_conns.append(pc)
        pc.role = ('upload', ticket)
        self._send_split(pc, struct.pack('<I', ticket))
        off['state'] = 'ticket-sent'

    def _on_raw(self, pc: PeerConn, data: bytes):
        role = getattr(pc, 'role', None)
        if role and role[0] == 'upload':
            off = self.offers[role[1]]
            buf = off.setdefault('buf', bytearray())
            buf += data
            if off['offset'] is None and len(buf) >= 8:
                off['offset'] = struct.unpack('<Q', bytes(buf[:8]))[0]
                off['state'] = 'sending'
                if self.on_offset is not None:
                    self.on_offset(off)
                if self.late_upload_failed and sum(1 for o in self.offers.values() if o['path'] == off['path']) > 1:
                    # the report about the previous, broken attempt only gets through now
                    p = self.ensure_p_conn()
                    if p is not None:
                        p.send(M.PeerUploadFailed.Request(off['path']))
                self._send_file(pc, off)
            return
        # downloader role: the library opened this F connection to us; first the ticket, then the file bytes
        info = self.received_files.setdefault(id(pc), {'ticket': None, 'data': bytearray(), 'buf': bytearray(),
                                                        'conn': pc, 'eof': False})
        if pc not in self.file_conns:
            self.file_conns.append(pc)
        if info['ticket'] is None:
            info['buf'] += data
            if len(info['buf']) >= 4:
                info['ticket'] = struct.unpack('<I', bytes(info['buf'][:4]))[0]
                rest = bytes(info['buf'][4:])
                path, size = self.expected.get(info['ticket'], (None, None))
                info['path'], info['size'] = path, size
                info['offset'] = self.offset_to_send(path) if path is not None else 0
                self._send_split(pc, struct.pack('<Q', info['offset']))
                if rest:
                    self._got_file_bytes(pc, info, rest)
                elif size is not None and info['offset'] >= size:
                    # nothing left to receive: a downloader closes at once
                    pc.close()
                    info['complete'] = True
            return
        self._got_file_bytes(pc, info, data)

    def _send_split(self, pc, data: bytes):
        step = self.split_handshake or len(data)
        for i in range(0, len(data), step):
            pc.send_raw(data[i:i + step])

    def _got_file_bytes(self, pc, info, data):
        info['data'] += data
        if self.close_after is not None and len(info['data']) >= self.close_after:
            pc.close()
            info['closed_early'] = True
            return
        size = info.get('size')
        if size is not None and info['offset'] + len(info['data']) >= size:
            # everything arrived: the downloader closes the connection (that is how the uploader knows)
            pc.close()
            info['complete'] = True

    def _send_file(self, pc: PeerConn, off):
        content = self.files[off['path']]
        body = content[off['offset']:]
        if self.send_short is not None:
            body = body[:self.send_short]
        body = body + self.send_extra
        step = self.segment or max(len(body), 1)
        for i in range(0, len(body), step):
            pc.send_raw(body[i:i + step])
        off['sent'] = len(body)
        if self.send_short is not None or not body:
            if self.send_short is not None:
                pc.close()


class TransferWorld:

    def __init__(self, chooser=None, horizon: float = 120.0, deviations: bool = False, settings: Optional[dict] = None,
                 lazy_exec: bool = False, base_dir: str = None, op_anywhere: bool = False, transfer_cache=None,
                 **world_kwargs):
        self.base = base_dir
        self.download_dir = os.path.join(base_dir, 'downloads')
        self.share_dir = os.path.join(base_dir, 'shared')
        os.makedirs(self.download_dir, exist_ok=True)
        os.makedirs(self.share_dir, exist_ok=True)
        st = {'shares': {'scan_on_start': False, 'download': self.download_dir,
                         'directories': [{'path': self.share_dir, 'share_mode': 'everyone'}]}}
        if settings:
            _deep(st, settings)
        self.cw = ClientWorld(chooser=chooser, horizon=horizon, deviations=deviations, settings=st,
                              lazy_exec=lazy_exec, op_anywhere=op_anywhere, transfer_cache=transfer_cache, **world_kwargs)
        self.world = self.cw.world
        self.client = self.cw.client
        self.server = self.cw.server
        self.remotes: dict[str, RemotePeer] = {}
        self.user_status: dict[str, int] = {}
        self.server.auto[M.GetPeerAddress.Request] = self._address
        self.server.auto[M.AddUser.Request] = self._add_user
        self.address_mode: dict[str, str] = {}       # name -> 'ok' | 'unknown'

    def remote(self, name: str, ip: str, port: int) -> RemotePeer:
        r = RemotePeer(self, name, ip, port)
        self.remotes[name] = r
        return r

    def _address(self, srv, msg):
        r = self.remotes.get(msg.username)
        if r is None or self.address_mode.get(msg.username) == 'unknown':
            srv.send(M.GetPeerAddress.Response(msg.username, '0.0.0.0', 0, 0, 0))
        else:
            srv.send(M.GetPeerAddress.Response(msg.username, r.ip, r.port, 0, 0))

    def _add_user(self, srv, msg):
        status = self.user_status.get(msg.username, 2)
        srv.send(M.AddUser.Response(msg.username, True, status, STATS, 'BE'))

    def start(self, scan: bool = True):
        self.cw.start()
        if scan:
            client = self.client
            self.world.op('scan', 'scan', lambda: client.shares.scan(), record=False)
            self.world.run_default_until_idle()

    def share_file(self, rel: str, content: bytes) -> str:
        path = os.path.join(self.share_dir, rel)
        os.makedirs(os.path.dirname(path), exist_ok=True)
        with open(path, 'wb') as fh:
            fh.write(content)
        return path

    def remote_path_of(self, rel: str) -> str:
        for d in self.client.shares.shared_directories:
            for item in d.items:
                if item.get_absolute_path() == os.path.join(self.share_dir, rel):
                    return item.get_remote_path()
        raise KeyError(rel)

    def close(self):
        self.cw.close()


def _deep(dst, src):
    for k, v in src.items():
        if isinstance(v, dict) and isinstance(dst.get(k), dict):
            _deep(dst[k], v)
        else:
            dst[k] = v
