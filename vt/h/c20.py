"""C20 — configured bandwidth limits are never exceeded and never stall a transfer.

Real ``LimitedRateLimiter`` / ``UnlimitedRateLimiter`` shared through the real
``Network.set_upload_speed_limit`` / ``set_download_speed_limit`` by 1..4
connections whose requests follow every schedule of the offset / think-time /
limit-change alphabets, under a virtual monotonic clock.  A second family drives
the real ``PeerConnection.send_file`` / ``receive_file`` loops over SimNet.
"""
from __future__ import annotations
import asyncio
import itertools

from ..common import ERRORS, install_virtual_time, make_settings
from ..world import World, Violation
from ..loop import VLoop

from aioslsk.events import EventBus
from aioslsk.network.network import Network
from aioslsk.network.connection import PeerConnection
from aioslsk.network import rate_limiter as rl

PROPERTY = 'C20'
LEVEL = 'model_checking'
RULE = ("every request schedule over the alphabets (limit x connections x start offsets x think times x limit "
        "change kind and position) is executed on the real limiter under a virtual clock; window bound checked for "
        "every pair of grants, waiting bound for every request; distinct = distinct grant time lines")
ASSUMPTIONS = [
    "virtual monotonic clock substituted for time.monotonic inside aioslsk.network.rate_limiter",
    "window bound: bytes in [ti,tj] <= integral of the limit + the largest limit in force in the window (one second of burst) + 128 bytes per connection and limit change (a request already waiting in the replaced limiter is served from it)",
    "waiting bound W(L,k) = 2*(8k+1)*128/(L*1024) + 1 s, independent of the other connections' demand",
]

GAPS = [0.0, 0.0005, 0.003, 0.01, 1.0, 100.0]


class Sim:
    def __init__(self, limit_kbps: int, direction: str = 'upload'):
        self.world = World(horizon=1e9, deviations=False)
        self.loop = self.world.loop
        install_virtual_time(self.world)
        settings = make_settings(_copy=True)
        if direction == 'upload':
            settings.network.limits.upload_speed_kbps = limit_kbps
        else:
            settings.network.limits.download_speed_kbps = limit_kbps
        self.direction = direction
        self.network = Network(settings, EventBus())
        self.grants: list[tuple] = []       # (time, conn index, bytes)
        self.requests: list[dict] = []
        self.limit_log: list[tuple] = [(0.0, limit_kbps)]
        self.conns: list[PeerConnection] = []

    def add_conn(self) -> PeerConnection:
        c = PeerConnection('10.0.0.9', 1000 + len(self.conns), self.network, connection_type='F')
        c.upload_rate_limiter = self.network._upload_rate_limiter
        c.download_rate_limiter = self.network._download_rate_limiter
        self.network.peer_connections.append(c)
        self.conns.append(c)
        return c

    def limiter(self, c):
        return c.upload_rate_limiter if self.direction == 'upload' else c.download_rate_limiter

    def set_limit(self, kbps: int):
        if self.direction == 'upload':
            self.network.set_upload_speed_limit(kbps)
        else:
            self.network.set_download_speed_limit(kbps)
        self.limit_log.append((self.loop.time(), kbps))

    async def requester(self, idx: int, conn, start: float, thinks: list[float], changes: dict):
        """changes: {request index: new limit} applied by this connection's driver right before the request"""
        if start:
            await asyncio.sleep(start)
        for n, think in enumerate(thinks):
            if n in changes:
                self.set_limit(changes[n])
            req = {'conn': idx, 'n': n, 't0': self.loop.time(), 'limit': self.current_limit(), 'k': len(self.conns)}
            self.requests.append(req)
            got = await self.limiter(conn).take_tokens()
            req['t1'] = self.loop.time()
            req['limit_after'] = self.current_limit()
            self.grants.append((self.loop.time(), idx, got, len(self.limit_log) - 1))
            if think == 0.0:
                await asyncio.sleep(0)
            else:
                await asyncio.sleep(think)

    def current_limit(self):
        return self.limit_log[-1][1]

    def run(self, tasks, horizon: float, until_done: list):
        loop = self.loop
        steps = 0
        while True:
            if all(t.done() for t in until_done):
                break
            if loop.has_ready():
                loop.run_batch()
            else:
                nt = loop.next_timer()
                if nt is None or nt[0] > horizon:
                    break
                loop.advance_to(nt[0])
                loop.run_batch()
            steps += 1
            if steps > 3_000_000:
                raise RuntimeError("step cap")
        return steps

    def close(self):
        self.world.close()


def check(sim: Sim, victim_task, horizon, label) -> list[Violation]:
    viols = []
    # (1) window upper bound
    g = sim.grants[:500]
    log = sim.limit_log

    def integral(t0, t1, r0, r1):
        """bytes the limits allow in [t0,t1] over the regimes r0..r1 in force for the grants of the window, and the
        limit of the first regime (the bucket holds at most one second of *that* limit when the window opens);
        None when a regime of the window is unlimited"""
        total = 0.0
        for i in range(r0, r1 + 1):
            ts, lim = log[i]
            te = log[i + 1][0] if i + 1 < len(log) else float('inf')
            if lim == 0:
                return None
            a, b = max(ts, t0), min(te, t1)
            if b > a:
                total += lim * 1024 * (b - a)
        return total, log[r0][1]
    n = len(g)
    prefix = [0]
    for _, _, b, _ in g:
        prefix.append(prefix[-1] + b)
    worst = None
    for i in range(n):
        for j in range(i, n):
            got = prefix[j + 1] - prefix[i]
            res = integral(g[i][0], g[j][0], g[i][3], g[j][3])
            if res is None:
                continue
            allowed, mx = res
            # a request that is already waiting inside the previous limiter when the limit changes is still
            # served one chunk from that limiter's bucket: one chunk per connection and change (sound weakening)
            changes = g[j][3]
            bound = allowed + mx * 1024 + 1 + 128 * len(sim.conns) * changes
            if got > bound:
                over = got - bound
                if worst is None or over > worst[0]:
                    worst = (over, g[i][0], g[j][0], got, bound)
    if worst is not None:
        viols.append(Violation(
            'limit-exceeded', f"{label}: {worst[3]} bytes granted in [{worst[1]:.4f},{worst[2]:.4f}] > bound {worst[4]:.1f}",
            signature='C20:limit-exceeded'))
    # (2) bounded waiting / (3) unlimited never waits
    for req in sim.requests:
        lim = req['limit']
        if 't1' not in req:
            waited = horizon - req['t0']
            if lim == 0:
                viols.append(Violation('unlimited-blocks', f"{label}: {req}", signature='C20:unlimited-blocks'))
                continue
            bound = _wait_bound(lim, req['k'])
            if waited > bound:
                viols.append(Violation(
                    'starved', f"{label}: request #{req['n']} of connection {req['conn']} issued at t={req['t0']:.4f} "
                    f"under {lim} KiB/s with {req['k']} connections still waiting after {waited:.2f}s "
                    f"(bound {bound:.2f}s); grants so far per connection: {_per_conn(sim)}",
                    signature='C20:starved'))
            continue
        waited = req['t1'] - req['t0']
        if lim == 0 and req['limit_after'] == 0:
            if waited > 0:
                viols.append(Violation('unlimited-throttled', f"{label}: waited {waited}", signature='C20:unlimited-throttled'))
        elif lim > 0 and req['limit_after'] == lim:
            bound = _wait_bound(lim, req['k'])
            if waited > bound:
                viols.append(Violation(
                    'slow-grant', f"{label}: request #{req['n']} of connection {req['conn']} waited {waited:.2f}s under "
                    f"{lim} KiB/s with {req['k']} connections (bound {bound:.2f}s)", signature='C20:slow-grant'))
    seen = set()
    out = []
    for v in viols:
        if v.signature not in seen:
            seen.add(v.signature)
            out.append(v)
    return out


def _per_conn(sim):
    d = {}
    for _, c, _, _ in sim.grants:
        d[c] = d.get(c, 0) + 1
    return d


def _wait_bound(limit_kbps, k):
    return 2 * (8 * k + 1) * 128 / (limit_kbps * 1024) + 1.0


def run_case(params: dict) -> dict:
    limit = params['limit']
    k = params['k']
    sim = Sim(limit, params.get('direction', 'upload'))
    try:
        conns = [sim.add_conn() for _ in range(k)]
        tasks = []
        victim_thinks = params['victim_thinks']
        change = params.get('change')      # (request index, new limit)
        changes = {change[0]: change[1]} if change else {}
        victim = sim.loop.create_task(sim.requester(0, conns[0], params['offsets'][0], victim_thinks, changes))
        tasks.append(victim)
        greedy_n = params.get('greedy_n', 400)
        for i in range(1, k):
            tasks.append(sim.loop.create_task(
                sim.requester(i, conns[i], params['offsets'][i], [params['greedy_think']] * greedy_n, {})))
        horizon = params.get('horizon')
        if horizon is None:
            lims = [limit] + ([change[1]] if change and change[1] else [])
            horizon = sum(victim_thinks) + len(victim_thinks) * (_wait_bound(min(lims), k) + 0.5) + 5
        steps = sim.run(tasks, horizon, [victim])
        viols = check(sim, victim, sim.loop.time(), f"L={limit} k={k}")
        timeline = tuple((round(t, 5), c) for t, c, _, _ in sim.grants[:60])
        return {'violations': viols, 'obs': timeline, 'transitions': steps, 'grants': len(sim.grants)}
    finally:
        sim.close()


def run_transfer(params: dict) -> dict:
    """the real PeerConnection.send_file / receive_file of a full client with a limit that changes while the transfer
    runs; observation = bytes on the simulated file connection per virtual-time window"""
    import os
    import shutil
    import tempfile
    from ..transferworld import TransferWorld
    from ..simnet import MemTransport
    from ..common import ERRORS
    from aioslsk.protocol import messages as M
    ERRORS.records.clear()
    scratch = '/dev/shm' if os.path.isdir('/dev/shm') else tempfile.gettempdir()
    base = tempfile.mkdtemp(prefix='c20t-', dir=scratch)
    viols = []
    direction = params['direction']
    l1, l2, at, size = params['l1'], params['l2'], params['at'], params['size']
    key = 'upload_speed_kbps' if direction == 'upload' else 'download_speed_kbps'
    try:
        tw = TransferWorld(base_dir=base, horizon=400.0, settings={'network': {'limits': {key: l1}},
                                                                    'transfers': {'report_interval': 30.0}})
        try:
            bob = tw.remote('bob', '10.0.9.1', 7300)
            data = bytes(range(256)) * (size // 256)
            events: list = []      # (time, bytes) of file data moved over the file connection

            if direction == 'upload':
                # what arrives on the downloader's file connection, with the time of arrival
                orig_got = bob._got_file_bytes

                def got(pc, info, chunk):
                    events.append((tw.world.now(), len(chunk)))
                    orig_got(pc, info, chunk)
                bob._got_file_bytes = got
                tw.share_file('music/f.bin', data)
                tw.start(scan=True)
                pc = bob.ensure_p_conn()
                pc.send(M.PeerTransferQueue.Request(tw.remote_path_of('music/f.bin')))
            else:
                bob.files['@@abcde\\f.bin'] = data
                bob.segment = 1024
                tw.start(scan=False)

                async def dl():
                    return await tw.client.transfers.download('bob', '@@abcde\\f.bin')
                tw.world.op('u', 'download', dl, record=False)
                # what the library takes out of its socket buffer is observed through the progress counter
                last = [0]

                def progress():
                    trs = tw.client.transfers.get_downloads()
                    if trs and trs[0].bytes_transfered > last[0]:
                        events.append((tw.world.now(), trs[0].bytes_transfered - last[0]))
                        last[0] = trs[0].bytes_transfered
                tw.world.boundary_hooks.append(progress)
            tw.world.run_default_for(at)
            net = tw.client.network
            (net.set_upload_speed_limit if direction == 'upload' else net.set_download_speed_limit)(l2)
            t_change = tw.world.now()
            tw.world.run_default_for(params.get('after', 60.0))
            label = f"{direction} {size} bytes, limit {l1} -> {l2} KiB/s at t={at}"

            def limit_at(t):
                return l1 if t < t_change else l2

            def allowed(t1, t2):
                # integral of the limit + one second of burst of the largest limit in force in the window + one chunk
                if (t1 < t_change and l1 == 0) or (t2 >= t_change and l2 == 0):
                    return None
                a = max(0.0, min(t2, t_change) - t1) * l1 * 1024 if t1 < t_change else 0.0
                b = max(0.0, t2 - max(t1, t_change)) * l2 * 1024 if t2 > t_change else 0.0
                burst = max(limit_at(t1), limit_at(t2)) * 1024
                return a + b + burst + 2 * 8192
            ts = events
            for i in range(len(ts)):
                total = 0
                for j in range(i, len(ts)):
                    total += ts[j][1]
                    cap = allowed(ts[i][0], ts[j][0])
                    if cap is not None and total > cap:
                        viols.append(Violation('limit-exceeded', f"{label}: {total} bytes moved in [{ts[i][0]:.3f},{ts[j][0]:.3f}] "
                                               f"> bound {cap:.0f}", signature=f'C20:transfer-limit-exceeded:{direction}'))
                        break
                if viols:
                    break
            moved = sum(n for _, n in ts)
            if l2 == 0:
                late = sum(n for t, n in ts if t > t_change + 1.5)
                if late:
                    viols.append(Violation('throttled-without-limit', f"{label}: {late} bytes were still moved later than 1.5 s "
                                           f"after the limit was removed", signature=f'C20:throttled-without-limit:{direction}'))
            else:
                # bounded waiting: the transfer finishes in about size / limit seconds
                need = (size - sum(n for t, n in ts if t <= t_change)) / (l2 * 1024.0)
                if moved < size - 8 and tw.world.now() > t_change + need + 10.0:
                    viols.append(Violation('transfer-stalled', f"{label}: {moved} of {size} bytes moved by t={tw.world.now():.0f}",
                                           signature=f'C20:transfer-stalled:{direction}'))
            return {'violations': viols, 'transitions': tw.world.loop.batches, 'grants': len(ts),
                    'obs': tuple((round(t, 2), n) for t, n in ts[:40])}
        finally:
            tw.close()
    finally:
        shutil.rmtree(base, ignore_errors=True)


def scenarios(tier: str):
    out = []
    limits = [1, 2, 10, 1000, 10000]
    ks = [1, 2, 3] if tier == 'quick' else [1, 2, 3, 4]
    offs = [0.0, 0.0005, 0.003]
    nreq = 4 if tier == 'quick' else 8
    short = [0.0, 0.0005, 0.003, 0.01]
    for limit in limits:
        gn = 300 if limit <= 10 else 1500
        for k in ks:
            if k == 1:
                seqs = [[g] * nreq for g in GAPS] + [[1.0, 0.0, 100.0, 0.0005] * (nreq // 4)]
                if tier != 'quick':
                    seqs += [list(p) for p in itertools.product([0.0, 0.0005, 0.01, 1.0], repeat=4)]
            else:
                seqs = [[g] * nreq for g in short] + [[0.0, 0.0005, 0.003, 0.01] * (nreq // 4), [1.0] + [0.0] * (nreq - 1)]
            for offsets in itertools.product(offs, repeat=k - 1):
                for gt in ([0.0] if k == 1 else ([0.0, 0.0005] if tier == 'quick' else [0.0, 0.0005, 0.003])):
                    for v_off in ([0.0] if k == 1 else [0.0005, 0.0]):
                        for thinks in seqs:
                            out.append({'limit': limit, 'k': k, 'offsets': [v_off] + list(offsets),
                                        'victim_thinks': thinks, 'greedy_think': gt, 'greedy_n': gn})
        # limit changes at every request index (victim alone and with one competitor)
        for k in (1, 2):
            for idx in range(nreq):
                for new in (0, max(1, limit // 2), limit * 2):
                    if new == limit:
                        continue
                    for thinks in ([0.0] * nreq, [0.01] * nreq, [1.0] * nreq):
                        out.append({'limit': limit, 'k': k, 'offsets': [0.0, 0.0005][:k], 'victim_thinks': thinks,
                                    'greedy_think': 0.0, 'greedy_n': gn, 'change': [idx, new]})
    # lowering the limit while the old bucket is (nearly) full: slow consumption, change, then fast consumption
    for limit in (10, 1000, 10000):
        for new in (max(1, limit // 100), max(1, limit // 2)):
            for k in (1, 2):
                out.append({'limit': limit, 'k': k, 'offsets': [0.0, 2.5][:k], 'victim_thinks': [1.0, 1.0] + [0.0] * 600,
                            'greedy_think': 0.0, 'greedy_n': 600, 'change': [2, new], 'horizon': 40.0})
    # from unlimited to a limit
    for new in limits:
        for idx in range(nreq):
            out.append({'limit': 0, 'k': 2, 'offsets': [0.0, 0.0005], 'victim_thinks': [0.01] * nreq,
                        'greedy_think': 0.0005, 'greedy_n': 200, 'change': [idx, new], 'horizon': 30.0})
    for d in ('download',):
        for limit in (1, 10):
            out.append({'limit': limit, 'k': 2, 'offsets': [0.0005, 0.0], 'victim_thinks': [0.0] * nreq,
                        'greedy_think': 0.0, 'greedy_n': 300, 'direction': d})
    # group into chunks so that a worker gets ~40 cases
    chunks = []
    for i in range(0, len(out), 25):
        chunks.append({'cases': out[i:i + 25]})
    # the limit changes while a real transfer is inside send_file / receive_file
    tr = []
    for direction in ('upload', 'download'):
        # (from unlimited the transfer is over within one virtual instant: nothing to change during it)
        for l1, l2 in ((4, 0), (4, 1), (1, 8), (8, 2), (2, 2), (2, 0)):
            for at in (1.5, 3.0):
                tr.append({'transfer': True, 'direction': direction, 'l1': l1, 'l2': l2, 'at': at, 'size': 61440})
    for i in range(0, len(tr), 3):
        chunks.append({'cases': tr[i:i + 3]})
    return chunks


def run_scenario(params: dict, tier: str) -> dict:
    executions = 0
    violations = []
    outcomes = set()
    transitions = 0
    seen = set()
    sample = None
    states = 0
    for case in params['cases']:
        out = run_transfer(case) if case.get('transfer') else run_case(case)
        executions += 1
        transitions += out['transitions']
        states += out['grants']
        outcomes.add(hash(out['obs']))
        if sample is None:
            sample = {'case': case, 'first_grants': list(out['obs'][:8])}
        for v in out['violations']:
            if v.signature not in seen:
                seen.add(v.signature)
                violations.append({'clause': v.clause, 'detail': v.detail, 'signature': v.signature,
                                   'choices': [], 'deviations': [], 'case': case})
    return {'executions': executions, 'violations': violations, 'states': states, 'transitions': transitions,
            'outcomes': [f'g{o}' for o in outcomes], 'capped': False, 'samples': [sample]}


def replay(params: dict, choices: list, tier: str = 'quick') -> dict:
    res = []
    for case in params['cases']:
        out = run_transfer(case) if case.get('transfer') else run_case(case)
        if out['violations']:
            res.append({'case': case, 'violations': [str(v) for v in out['violations']], 'grants': list(out['obs'][:30])})
    return {'violations': res}
