"""C06 — after abort/pause/remove returns, nothing more happens for that transfer;
at most one background negotiation per transfer.

Transfer world (full client, real files) with 1..2 downloads from a scripted
peer whose direct connect is fast / hangs / is refused and whose indirect path
pierces or stays silent.  abort / pause / remove is a user call the explorer may
place at every iteration boundary of the negotiation.
"""
from __future__ import annotations
import os
import shutil
import tempfile

from ..common import ERRORS
from ..world import Violation, EnvEvent
from ..transferworld import TransferWorld
from ..explore import Chooser, explore
from ..simnet import MemTransport

from aioslsk.transfer.state import TransferState
from aioslsk.protocol import messages as M

PROPERTY = 'C06'
LEVEL = 'model_checking'
RULE = ("scenario = number of downloads x direct connect outcome x indirect outcome x action (abort/pause/remove) x "
        "extra-cycle trigger; the action is placed at every iteration boundary (hold + release anywhere) within the "
        "deviation bound; distinct = distinct logs of (placement, frames written after the return, task counts)")
ASSUMPTIONS = [
    "scripted peer / server; horizon 90 virtual seconds after the call returned (> connect + indirect time-outs)",
    "a task belongs to the transfer bound to the 'transfer' local of its coroutine",
    "'no connection is opened on its behalf' is judged when no other unfinished transfer for that peer exists",
]

SCRATCH_ROOT = '/dev/shm' if os.path.isdir('/dev/shm') else tempfile.gettempdir()
PATHS = ['@@aaaaa\\music\\one.mp3', '@@aaaaa\\music\\two.mp3', '@@aaaaa\\music\\three.mp3']
BOB = ('bob', '10.0.9.1', 7300)


def task_transfer(task):
    coro = task.get_coro()
    frame = getattr(coro, 'cr_frame', None)
    if frame is None:
        return None
    return frame.f_locals.get('transfer')


def run_one(params: dict, chooser) -> dict:
    ERRORS.records.clear()
    base = tempfile.mkdtemp(prefix='c06-', dir=SCRATCH_ROOT)
    viols, sigs = [], set()

    def add(clause, detail, sig):
        if sig not in sigs:
            sigs.add(sig)
            viols.append(Violation(clause, detail, signature=sig))
    n = params['n']
    action = params['action']
    try:
        # the explored dimension is *where the user call lands*: it may be held and released at any boundary; network
        # events keep their default order in quick (thorough also reorders / delays them)
        extra = {} if params.get('net_dev') else {'early': False, 'reorder': False, 'hold_kinds': {'op'}}
        if params.get('resume'):
            extra['lazy_exec'] = True      # thread-pool jobs (file exists / remove) complete when the environment says
        tw = TransferWorld(base_dir=base, horizon=200.0, chooser=chooser, op_anywhere=True, op_dedup=True, op_at_ticks=True, **extra,
                           settings={'network': {'peer': {'connect_mode': params.get('mode', 'race')}},
                                     'transfers': {'report_interval': 30.0}})
        try:
            bob = tw.remote(*BOB)
            for p in PATHS:
                bob.files[p] = bytes(range(256)) * 40
            bob.segment = 4096
            direct = params['direct']
            _saved_listener = tw.cw.net.listeners.get((BOB[1], BOB[2]))
            if direct == 'hang':
                tw.cw.net.routes[(BOB[1], BOB[2])] = 'hang'
                del tw.cw.net.listeners[(BOB[1], BOB[2])]
            elif direct == 'refuse':
                tw.cw.net.routes[(BOB[1], BOB[2])] = 'refuse'
                del tw.cw.net.listeners[(BOB[1], BOB[2])]
            if params['indirect'] == 'pierce':
                def on_ctp(srv, msg):
                    if msg.username == 'bob':
                        bob.peer.connect_pierce(60000, msg.ticket, msg.typ)
                tw.server.auto[M.ConnectToPeer.Request] = on_ctp
            if params.get('resume'):
                # the first attempt breaks after 5000 bytes (download INCOMPLETE with a partial file); the uploader
                # offers the file again when the environment says so
                bob.auto_retry = False

                def first_offset(off):
                    bob.auto_offer = False
                bob.on_offset = first_offset
                cut_armed = []

                def arm_cut():
                    for off in bob.offers.values():
                        pc = off.get('conn')
                        if pc is not None and not cut_armed:
                            cut_armed.append(pc)
                            init_len = pc.end.conn.bytes_sent[0] - 4
                            pc.end.conn.cut_after[1] = (init_len + 4 + 5000, 'reset')
                _open = bob._open_file_connection

                def open_and_arm(ticket):
                    _open(ticket)
                    arm_cut()
                bob._open_file_connection = open_and_arm
            upload = params.get('kind') == 'upload'
            if upload:
                tw.share_file('music/up.mp3', bytes(range(256)) * 40)
                if direct != 'fast':
                    # bob listens while it queues its request, then cannot be reached any more
                    tw.cw.net.listeners[(BOB[1], BOB[2])] = _saved_listener
                    del tw.cw.net.routes[(BOB[1], BOB[2])]
            tw.start(scan=upload)
            world = tw.world
            writes: list[tuple] = []      # (seq, time, conn label, bytes) written by the library

            def hook_conn(conn):
                def on_write(src, data, conn=conn):
                    end = conn.ends[src]
                    if isinstance(end, MemTransport):
                        writes.append((len(writes), world.now(), conn.label, bytes(data)))
                conn.on_write = on_write
            hooked = set()

            def watch():
                for conn in tw.cw.net.conns:
                    if id(conn) not in hooked:
                        hooked.add(id(conn))
                        hook_conn(conn)
                # at most one live task per kind per transfer
                per: dict = {}
                for t in world.live_tasks():
                    name = t.get_name()
                    kind = 'queue-remotely' if name.startswith('queue-remotely') else (
                        'initialize' if name.startswith('initialize-') else None)
                    if kind is None:
                        continue
                    tr = task_transfer(t)
                    if tr is None:
                        continue
                    per.setdefault((id(tr), kind), []).append(name)
                for (tid, kind), names in per.items():
                    if len(names) > 1:
                        add('several-negotiations', f"{len(names)} live {kind} tasks for one transfer: {names}",
                            f'C06:several-negotiations:{kind}')
            world.boundary_hooks.append(watch)

            transfers: list = []
            path0 = PATHS[0]
            if upload:
                path0 = tw.remote_path_of('music/up.mp3')
                pcq = bob.ensure_p_conn()
                pcq.send(M.PeerTransferQueue.Request(path0))

                def grab():
                    if not transfers:
                        ups = tw.client.transfers.get_uploads()
                        if ups:
                            transfers.append(ups[0])
                            if direct != 'fast':
                                # the downloader goes away after queueing: the library has to connect to it
                                pcq.close()
                                tw.cw.net.listeners.pop((BOB[1], BOB[2]), None)
                                tw.cw.net.routes[(BOB[1], BOB[2])] = direct
                world.boundary_hooks.append(grab)
            for i in range(0 if upload else n):
                async def dl(i=i):
                    tr = await tw.client.transfers.download('bob', PATHS[i])
                    transfers.append(tr)
                    return tr.state.VALUE.name
                world.op('u', f'download-{i}', dl, record=False)
            snap: dict = {}
            snap_upfail: list = []

            def fields(tr):
                return (tr.state.VALUE.name, tr.remotely_queued, tr.bytes_transfered, tr.local_path, tr.fail_reason,
                        tr.abort_reason, tr.queue_attempts, tr.place_in_queue, tr.filesize,
                        any(tr is x for x in tw.client.transfers.transfers))

            async def act():
                if not transfers:
                    return 'no-transfer'
                tr = transfers[0]
                try:
                    await getattr(tw.client.transfers, action)(tr)
                except Exception as exc:
                    snap['exc'] = type(exc).__name__
                snap['t'] = world.now()
                snap['seq'] = len(writes)
                snap['fields'] = fields(tr)
                snap['connects'] = len(tw.cw.net.connect_log)
                snap['tr'] = tr
                return snap.get('exc', 'ok')
            world.op('x', action, act, record=False, guard=lambda: len(transfers) >= 1)
            trig = params.get('trigger')
            if trig == 'status':
                def status():
                    tw.server.send(M.GetUserStatus.Response('bob', 2, False))
                world.post(EnvEvent('inject', 'status-online', status, chan=None))
            elif trig == 'upload-failed':
                def upfail():
                    pc = bob.p_conn()
                    if pc is not None:
                        pc.send(M.PeerUploadFailed.Request(PATHS[0]))
                        snap_upfail.append(world.now())
                world.post(EnvEvent('inject', 'peer-upload-failed', upfail, chan=None,
                                    guard=lambda: bob.p_conn() is not None))
            elif trig == 'peer-offers':
                # the peer connects to us and offers the file although our queue request never reached it: the
                # remote-queue attempt and the initialisation are in flight together
                def offers():
                    bob.offer(PATHS[0])
                world.post(EnvEvent('inject', 'peer-offers', offers, chan=None,
                                    guard=lambda: any(c[1] == BOB[1] for c in tw.cw.net.connect_log)))
            elif trig == 'peer-reoffers':
                def reoffers():
                    bob.offer(PATHS[0])
                world.post(EnvEvent('inject', 'peer-reoffers', reoffers, chan=None, guard=lambda: bool(transfers) and
                                    transfers[0].state.VALUE == TransferState.State.INCOMPLETE))
            world.state_fn = lambda: (
                tuple((t.state.VALUE.name, t.remotely_queued) for t in transfers), 't' in snap,
                tuple(sorted(ev.key for ev in world.pending)),
                tuple(sorted(t.get_name().rsplit('-', 1)[0] for t in world.live_tasks())))
            world.deviations = True
            quiet = 90.0 if (params['direct'] != 'fast' or params['indirect'] == 'silence' and params['n'] > 1) else 20.0
            world.run(until=lambda: 't' in snap and world.now() > snap['t'] + quiet)

            # ---- oracle: nothing more happens for the transfer after the call returned ----------------------------
            if 't' in snap and snap.get('exc') is None:
                tr = snap['tr']
                path_b = path0.encode('utf-8')
                later = [w for w in writes[snap['seq']:] if path_b in w[3]]
                if later:
                    kinds = sorted({_frame_kind(w[3]) for w in later})
                    add('message-after-return', f"{action} returned at t={snap['t']}; afterwards the library wrote "
                        f"{[(round(w[1], 3), w[2], _frame_kind(w[3])) for w in later][:4]} about {path0}",
                        f"C06:message-after-return:{action}:{'+'.join(kinds)}")
                # replies allowing a transfer of that file
                offered = {t for t, o in bob.offers.items() if o['path'] == PATHS[0]}
                for w in writes[snap['seq']:]:
                    if _frame_kind(w[3]) == 'PeerTransferReply':
                        try:
                            m = M.PeerTransferReply.Request.deserialize(0, w[3])
                        except Exception:
                            continue
                        if m.ticket in offered and m.allowed:
                            add('accepts-after-return', f"{action} returned at t={snap['t']}; at t={w[1]} the library "
                                f"accepted ticket {m.ticket} for the file", f'C06:accepts-after-return:{action}')
                now = fields(tr)
                before = snap['fields']
                if snap_upfail and snap_upfail[-1] >= snap['t'] - 1e-9:
                    # the peer itself reported afterwards that its upload failed: the remote-queue mark is the
                    # peer's to clear
                    now = now[:1] + (None,) + now[2:]
                    before = before[:1] + (None,) + before[2:]
                if action != 'remove' and now != before:
                    names = ['state', 'remotely_queued', 'bytes', 'local_path', 'fail_reason', 'abort_reason',
                             'queue_attempts', 'place_in_queue', 'filesize', 'in_manager']
                    diff = [names[i] for i, (a, b) in enumerate(zip(before, now)) if a != b]
                    add('fields-changed', f"{action} returned with {before}, 90 s later {now}",
                        f"C06:fields-changed:{action}:{'+'.join(diff)}")
                others = [t for t in tw.client.transfers.transfers
                          if t is not tr and t.username == 'bob' and not t.is_finalized()
                          and t.state.VALUE != TransferState.State.PAUSED]
                if n == 1 or not others:
                    new_connects = [c for c in tw.cw.net.connect_log[snap['connects']:] if c[1] == BOB[1]]
                    if new_connects and n == 1:
                        add('connect-after-return', f"{action} returned at t={snap['t']}; connects to the peer "
                            f"afterwards: {new_connects[:3]}", f'C06:connect-after-return:{action}')
                live = [t.get_name() for t in world.live_tasks() if task_transfer(t) is tr]
                if live:
                    add('task-survives', f"{action} returned; tasks still alive for the transfer 90 s later: {live}",
                        f'C06:task-survives:{action}')
            unret = [u for u in world.unretrieved_task_exceptions() if 'queue-message-task' not in u]
            if unret:
                add('task-exception', unret[0], 'C06:task-exception:' + unret[0].split(':', 1)[1].strip()[:40])
            return {'violations': viols,
                    'obs': (snap.get('t'), snap.get('fields'), len(writes), tuple(t.state.VALUE.name for t in transfers)),
                    'transitions': world.loop.batches, 'states': set(world.state_keys), 'trace': list(world.trace)}
        finally:
            tw.close()
    finally:
        shutil.rmtree(base, ignore_errors=True)


_KINDS = {43: 'PeerTransferQueue', 41: 'PeerTransferReply', 40: 'PeerTransferRequest', 51: 'PeerPlaceInQueueRequest',
          44: 'PeerPlaceInQueueReply', 46: 'PeerUploadFailed', 50: 'PeerTransferQueueFailed'}


def _frame_kind(data: bytes) -> str:
    if len(data) >= 8:
        code = int.from_bytes(data[4:8], 'little')
        return _KINDS.get(code, f'code{code}')
    return 'raw'


def scenarios(tier: str):
    out = []
    for n in (1, 2):
        for direct in ('fast', 'hang', 'refuse'):
            for indirect in ('pierce', 'silence'):
                for action in ('abort', 'pause', 'remove'):
                    if n == 1 and direct == 'fast' and indirect == 'silence':
                        # resumed download: the uploader offers again while the call is removing the partial file
                        out.append({'n': 1, 'direct': direct, 'indirect': indirect, 'action': action,
                                    'trigger': 'peer-reoffers', 'resume': True})
                    for trig in (None, 'status', 'upload-failed', 'peer-offers'):
                        if trig == 'peer-offers' and (direct != 'hang' or n != 1):
                            continue
                        if tier == 'quick' and trig == 'peer-offers':
                            if indirect == 'silence' and action in ('abort', 'pause'):
                                out.append({'n': n, 'direct': direct, 'indirect': indirect, 'action': action, 'trigger': trig})
                            continue
                        if tier == 'quick':
                            # quick: every (direct, indirect) pair with abort; pause / remove and the extra-cycle
                            # triggers on the two shapes that differ most (fast+silence, hang+pierce)
                            core = (direct, indirect) in (('fast', 'silence'), ('hang', 'pierce'))
                            if action != 'abort' and not core:
                                continue
                            if trig is not None and not (core and n == 1):
                                continue
                            if n == 2 and (direct != 'hang' or action != 'abort'):
                                continue
                            if n == 1 and trig is not None and action != 'abort':
                                continue
                        out.append({'n': n, 'direct': direct, 'indirect': indirect, 'action': action, 'trigger': trig})
                        if tier != 'quick' and trig is None:
                            out.append({'n': n, 'direct': direct, 'indirect': indirect, 'action': action,
                                        'trigger': trig, 'net_dev': True})
    if tier != 'quick':
        out.append({'n': 1, 'direct': 'fast', 'indirect': 'silence', 'action': 'abort', 'trigger': None, 'deep': True})
        out.append({'n': 1, 'direct': 'hang', 'indirect': 'pierce', 'action': 'pause', 'trigger': None, 'deep': True})
    # uploads: the downloader queued a file, the library negotiates (reachable / hanging / refusing downloader)
    for direct in ('fast', 'hang', 'refuse'):
        for indirect in (('silence',) if tier == 'quick' else ('silence', 'pierce')):
            for action in ('abort', 'pause', 'remove'):
                if tier == 'quick' and (direct, action) not in (('fast', 'abort'), ('hang', 'abort'), ('hang', 'remove'),
                                                               ('refuse', 'abort'), ('refuse', 'pause')):
                    continue
                out.append({'kind': 'upload', 'n': 1, 'direct': direct, 'indirect': indirect, 'action': action,
                            'trigger': None})
    return out


def weight(params, tier):
    return 3 if params['direct'] == 'fast' else 1


def run_scenario(params: dict, tier: str) -> dict:
    # one execution is ~40 ms and a scenario has ~800 placements at bound 1: bound 2 (~3 * 10^5 executions per
    # scenario) is only run, capped, on the scenarios marked 'deep' in the thorough tier; everything else completes
    # bound 1 on every scenario shape (thorough adds all shapes and the network deviations)
    bound = 2 if (tier != 'quick' and params.get('deep')) else 1
    res = explore(lambda ch: run_one(params, ch), bound=bound, max_exec=4000 if tier == 'quick' else 60000)
    return {'executions': res.executions, 'violations': res.violations, 'states': res.states,
            'transitions': res.transitions, 'outcomes': list(res.outcomes), 'capped': res.capped,
            'bound': res.bound_completed, 'samples': res.samples}


def replay(params: dict, choices: list, tier: str = 'quick') -> dict:
    out = run_one(params, Chooser(choices))
    return {'violations': [str(v) for v in out['violations']], 'trace': out['trace'], 'obs': out['obs']}
