"""C17 — transfers survive a restart: nothing lost, duplicated, or left 'in progress'.

Real ``TransferShelveCache`` on a scratch directory and real
``TransferManager.load_data``; enumerated: every single transfer over state x
direction x field alphabet, every pair (and triple in thorough) over a record
alphabet with colliding / equal / non-ASCII identities, histories of
write / mutate / remove / add / write / read-in-a-new-manager, legacy pickles; a
second family restarts a full client in the sim world and checks that loaded
transfers are scheduled like fresh ones.
"""
from __future__ import annotations
import itertools
import os
import pickle
import shelve
import shutil
import tempfile

from ..common import ERRORS, make_settings
from ..world import Violation
from ..clientworld import ClientWorld

from aioslsk.events import EventBus
from aioslsk.transfer.cache import TransferShelveCache
from aioslsk.transfer.manager import TransferManager
from aioslsk.transfer.model import Transfer, TransferDirection
from aioslsk.transfer.state import TransferState
from aioslsk.protocol import messages as M

PROPERTY = 'C17'
LEVEL = 'model_checking'
RULE = ("every single transfer over state x direction x sizes x progress x local path x reasons; every pair (triple in "
        "thorough) over a 14-record alphabet; histories of write/mutate/remove/add/write/read over lists up to 8; "
        "legacy records; full-client restarts; distinct = distinct (written list, history) cases")
ASSUMPTIONS = [
    "dbm backend of this image behind shelve; scratch directory on tmpfs",
    "a transfer is identified by (username, remote path, direction) as Transfer.__eq__ defines",
]

SCRATCH_ROOT = '/dev/shm' if os.path.isdir('/dev/shm') else tempfile.gettempdir()
STATES = [s for s in TransferState.State if s != TransferState.State.UNSET]
DL, UL = TransferDirection.DOWNLOAD, TransferDirection.UPLOAD

IDENTITIES = [
    ('ab', 'c', DL), ('a', 'bc', DL),                   # concatenation collision
    ('bob', '@@x\\song.mp3', DL), ('bob', '@@x\\song.mp3', UL),   # same path, other direction
    ('bob', '@@x\\Song.mp3', DL), ('été', '@@片\\仮名.mp3', DL), ('bob', '', DL), ('', '@@x\\song.mp3', UL),
    ('bob1', '@@x\\a', DL), ('bob', '1@@x\\a', DL),       # digit moves between user and path
    ('u', 'p0', UL), ('u', 'p', DL),                     # direction digit vs path suffix
    ('carol', '@@y\\long name ' + 'n' * 120 + '.flac', UL), ('dave', '@@z\\a\\b\\c.ogg', DL),
]


def make_transfer(ident, state=TransferState.State.QUEUED, filesize=None, done=0, local=None, fail=None,
                  abort=None, remotely=False):
    t = Transfer(ident[0], ident[1], ident[2])
    t.state = TransferState.init_from_state(state, t)
    t.filesize = filesize
    t.bytes_transfered = done
    t.local_path = local
    t.fail_reason = fail
    t.abort_reason = abort
    t.remotely_queued = remotely
    if state in (TransferState.State.DOWNLOADING, TransferState.State.UPLOADING, TransferState.State.COMPLETE):
        t.start_time = 1000.0
    if state == TransferState.State.COMPLETE:
        t.complete_time = 1010.0
    return t


def sig_of(t: Transfer):
    return (t.username, t.remote_path, t.direction.name, t.local_path, t.filesize, t.bytes_transfered,
            t.fail_reason, t.abort_reason)


def run_sync(coro):
    try:
        coro.send(None)
    except StopIteration as exc:
        return exc.value
    raise RuntimeError("coroutine suspended")


class Case:
    def __init__(self):
        self.dir = tempfile.mkdtemp(prefix='c17-', dir=SCRATCH_ROOT)
        self.cache = TransferShelveCache(self.dir)

    def new_manager(self):
        return TransferManager(make_settings(_copy=False), EventBus(), None, None, None, cache=TransferShelveCache(self.dir))

    def close(self):
        shutil.rmtree(self.dir, ignore_errors=True)


def check_roundtrip(label, written, got, add):
    want = sorted(map(repr, map(sig_of, written)))
    have = sorted(map(repr, map(sig_of, got)))
    if want != have:
        missing = [w for w in want if w not in have]
        extra = [h for h in have if h not in want]
        dup = len(have) != len(set(have))
        kind = 'duplicated' if dup else ('lost' if missing and not extra else 'differs')
        add('cache-' + kind, f"{label}: wrote {len(want)} transfers, read back {len(have)}; missing {missing[:3]} "
            f"unexpected {extra[:3]}", f'C17:cache-{kind}')


def check_loaded(label, written_states, manager, add):
    """after load_data(): repaired states"""
    by_id = {(t.username, t.remote_path, t.direction): t for t in manager.transfers}
    for ident, (state, filesize, done) in written_states.items():
        t = by_id.get(ident)
        if t is None:
            add('load-lost', f"{label}: {ident} not loaded", 'C17:load-lost')
            continue
        now = t.state.VALUE
        if now in (TransferState.State.INITIALIZING, TransferState.State.DOWNLOADING, TransferState.State.UPLOADING):
            add('in-progress-after-load', f"{label}: {ident} is {now.name} after loading (was {state.name})",
                f'C17:in-progress-after-load:{now.name}')
        if state == TransferState.State.INITIALIZING:
            want = TransferState.State.QUEUED
        elif state in (TransferState.State.DOWNLOADING, TransferState.State.UPLOADING):
            want = TransferState.State.COMPLETE if filesize == done else TransferState.State.INCOMPLETE
        else:
            want = state
        if now != want:
            add('load-state', f"{label}: {ident} stored {state.name} (filesize {filesize}, bytes {done}) loaded as "
                f"{now.name}, expected {want.name}", f'C17:load-state:{state.name}>{now.name}')
        if t.remotely_queued:
            add('remotely-queued-kept', f"{label}: {ident}", 'C17:remotely-queued-kept')
        if not any(listener is manager for listener in t.state_listeners):
            add('no-listener', f"{label}: {ident} has no manager listener", 'C17:no-listener')
    if len(manager.transfers) != len(written_states):
        add('load-count', f"{label}: stored {len(written_states)} distinct transfers, manager holds "
            f"{len(manager.transfers)}", 'C17:load-count')


def run_cases(cases) -> dict:
    """cases: list of (label, list of op tuples); ops:
       ('write', [record specs]) ('mutate', idx, state) ('remove', idx) ('add', spec) ('read',) ('load',)"""
    viols, sigs = [], set()

    def add(clause, detail, sig):
        if sig not in sigs:
            sigs.add(sig)
            viols.append(Violation(clause, detail, signature=sig))
    n = 0
    outcomes = set()
    sample = None
    for label, ops in cases:
        n += 1
        case = Case()
        try:
            current: list[Transfer] = []
            for op in ops:
                if op[0] == 'set':
                    current = [make_transfer(IDENTITIES[s[0]], *s[1:]) for s in op[1]]
                elif op[0] == 'add':
                    s = op[1]
                    new_t = make_transfer(IDENTITIES[s[0]], *s[1:])
                    if not any(new_t == t for t in current):      # the manager never holds two equal transfers
                        current.append(new_t)
                elif op[0] == 'remove':
                    if op[1] < len(current):
                        del current[op[1]]
                elif op[0] == 'mutate':
                    if op[1] < len(current):
                        t = current[op[1]]
                        t.state = TransferState.init_from_state(op[2], t)
                        t.bytes_transfered += 1
                elif op[0] == 'touch':
                    # the transfer was queued again and ended in the same state with other details (no write between)
                    if op[1] < len(current):
                        t = current[op[1]]
                        t.bytes_transfered += 2
                        t.local_path = (t.local_path or '/dl/x') + '.2'
                        if t.fail_reason is not None or t.state.VALUE == TransferState.State.FAILED:
                            t.fail_reason = 'Other reason'
                        if t.abort_reason is not None:
                            t.abort_reason = 'Blocked' if t.abort_reason != 'Blocked' else 'Requested'
                        t.filesize = (t.filesize or 0) + 100
                elif op[0] == 'write':
                    case.cache.write(current)
                elif op[0] == 'read':
                    got = TransferShelveCache(case.dir).read()
                    check_roundtrip(label, current, got, add)
                    outcomes.add(hash(tuple(sorted(map(repr, map(sig_of, got))))))
                elif op[0] == 'load':
                    mgr = case.new_manager()
                    try:
                        run_sync(mgr.load_data())
                    except Exception as exc:
                        add('load-raises', f"{label}: {exc!r}", f'C17:load-raises:{type(exc).__name__}')
                        continue
                    distinct = {}
                    for t in current:
                        distinct[(t.username, t.remote_path, t.direction)] = (t.state.VALUE, t.filesize, t.bytes_transfered)
                    check_loaded(label, distinct, mgr, add)
                    # a state change on a loaded transfer reaches the manager
                    for t in mgr.transfers:
                        if t.state.VALUE == TransferState.State.QUEUED:
                            while not mgr._management_queue.empty():
                                mgr._management_queue.get_nowait()
                            run_sync(t.state.fail(reason='x'))
                            if mgr._management_queue.empty():
                                add('state-change-not-reported', f"{label}: failing a loaded QUEUED transfer did not "
                                    f"request a management cycle", 'C17:state-change-not-reported')
                            break
            if sample is None:
                sample = {'label': label, 'ops': [str(o)[:100] for o in ops]}
        finally:
            case.close()
    return {'executions': n, 'violations': [{'clause': v.clause, 'detail': v.detail, 'signature': v.signature,
                                             'choices': [], 'deviations': []} for v in viols],
            'states': len(outcomes), 'transitions': n, 'outcomes': [f'o{o}' for o in outcomes], 'capped': False,
            'samples': [sample]}


def single_specs():
    out = []
    for state in STATES:
        for filesize, done in ((None, 0), (10, 0), (10, 4), (10, 10)):
            for local in (None, '/dl/song.mp3'):
                for fail, abort in ((None, None), ('Cancelled', None), (None, 'Blocked')):
                    for remotely in (False, True):
                        if state == TransferState.State.ABORTED and abort is None:
                            continue     # an aborted transfer always carries a reason (a missing one is the
                            #              legacy form and is repaired to 'Requested' on load — see legacy_case)
                        out.append((state, filesize, done, local, fail, abort, remotely))
    return out


def all_cases(tier):
    cases = []
    # singles: both directions (identity 2 = download, 3 = upload)
    for ident in (2, 3):
        for spec in single_specs():
            if IDENTITIES[ident][2] == UL and spec[0] in (TransferState.State.DOWNLOADING, TransferState.State.INCOMPLETE):
                continue
            if IDENTITIES[ident][2] == DL and spec[0] == TransferState.State.UPLOADING:
                continue
            cases.append((f'single:{ident}:{spec[0].name}', [('set', [(ident,) + spec]), ('write',), ('read',), ('load',)]))
    # pairs / triples over the identity alphabet
    st = TransferState.State
    for a, b in itertools.combinations(range(len(IDENTITIES)), 2):
        cases.append((f'pair:{a}:{b}', [('set', [(a, st.QUEUED, 10, 0), (b, st.COMPLETE, 5, 5)]), ('write',), ('read',), ('load',)]))
    if tier != 'quick':
        for a, b, c in itertools.combinations(range(len(IDENTITIES)), 3):
            cases.append((f'triple:{a}:{b}:{c}', [('set', [(a, st.QUEUED, 10, 0), (b, st.PAUSED, 5, 5), (c, st.FAILED, 1, 0, None, 'r')]),
                                                   ('write',), ('read',), ('load',)]))
    # lists up to 8 and histories
    full = [(i, st.QUEUED, 10, i % 3) for i in range(8)]
    for n in range(0, 9):
        cases.append((f'list:{n}', [('set', full[:n]), ('write',), ('read',), ('load',)]))
    # a finalised (or any) state written, details changed while the state is the same again, written again
    for state in STATES:
        for ident in (2, 3):
            if IDENTITIES[ident][2] == UL and state in (st.DOWNLOADING, st.INCOMPLETE):
                continue
            if IDENTITIES[ident][2] == DL and state == st.UPLOADING:
                continue
            spec = (ident, state, 10, 4, '/dl/song.mp3', 'Cancelled' if state == st.FAILED else None,
                    'Requested' if state == st.ABORTED else None)
            cases.append((f'touch:{ident}:{state.name}', [('set', [spec, (0, st.QUEUED, 10, 0)]), ('write',), ('touch', 0),
                                                         ('write',), ('read',), ('touch', 0), ('touch', 1), ('write',), ('read',)]))
    hist_ops = [('mutate', 0, st.DOWNLOADING), ('mutate', 1, st.INITIALIZING), ('remove', 0), ('remove', 2),
                ('add', (9, st.QUEUED, 3, 0)), ('add', (1, st.PAUSED, 3, 0)), ('touch', 2), ('write',)]
    depth = 3 if tier == 'quick' else 4
    for n in range(1, depth + 1):
        for seq in itertools.product(hist_ops, repeat=n):
            cases.append((f'hist:{len(cases)}', [('set', [(0, st.QUEUED, 10, 0), (2, st.QUEUED, 10, 0), (8, st.ABORTED, 1, 0, None, None, 'Requested')]),
                                                  ('write',)] + list(seq) + [('write',), ('read',), ('load',)]))
    return cases


def legacy_queued_case(state_name: str) -> dict:
    """a record in the on-disk format of the pinned version (remotely_queued stored) with the mark set"""
    viols = []
    case = Case()
    try:
        stt = TransferState.State[state_name]
        t = make_transfer(IDENTITIES[2], stt, 10, 3)
        state = t.__getstate__()
        state['remotely_queued'] = True
        with shelve.open(os.path.join(case.dir, 'transfers'), flag='c') as db:
            db.dict[b'legacykey'] = pickle.dumps(_RawState(state))
        mgr = case.new_manager()
        run_sync(mgr.load_data())
        if len(mgr.transfers) != 1:
            viols.append(Violation('legacy-load', str(mgr.transfers), signature='C17:legacy-load'))
        elif mgr.transfers[0].remotely_queued:
            viols.append(Violation('remotely-queued-kept', f"record stored as {state_name} with remotely_queued=True in the "
                                   f"pinned on-disk format is loaded with the mark still set (state "
                                   f"{mgr.transfers[0].state.VALUE.name}): scheduling never queues it again",
                                   signature='C17:remotely-queued-kept:legacy'))
    except Exception as exc:
        viols.append(Violation('legacy-raises', repr(exc), signature='C17:legacy-raises'))
    finally:
        case.close()
    return {'executions': 1, 'violations': [{'clause': v.clause, 'detail': v.detail, 'signature': v.signature,
                                             'choices': [], 'deviations': []} for v in viols],
            'states': 1, 'transitions': 1, 'outcomes': [f'legacy-queued-{state_name}'], 'capped': False,
            'samples': [{'case': f'legacy record {state_name} remotely_queued'}]}


def legacy_case() -> dict:
    """records written by older versions: no abort_reason, with _offset"""
    viols = []
    case = Case()
    try:
        t = make_transfer(IDENTITIES[2], TransferState.State.ABORTED, 10, 3)
        state = t.__getstate__()
        state.pop('abort_reason', None)
        state['_offset'] = 3

        class _Legacy(Transfer):
            pass
        obj = Transfer.__new__(Transfer)
        obj.__dict__.update({k: v for k, v in state.items()})
        # write the raw state through pickle the way shelve does
        with shelve.open(os.path.join(case.dir, 'transfers'), flag='c') as db:
            db.dict[b'legacykey'] = pickle.dumps(_RawState(state))
        got = TransferShelveCache(case.dir).read()
        if len(got) != 1 or got[0].abort_reason != 'Requested' or hasattr(got[0], '_offset') and '_offset' in got[0].__dict__:
            viols.append(Violation('legacy-record', f"loaded {[(g.__dict__.get('abort_reason'), '_offset' in g.__dict__) for g in got]}",
                                   signature='C17:legacy-record'))
        mgr = case.new_manager()
        run_sync(mgr.load_data())
        if len(mgr.transfers) != 1 or mgr.transfers[0].state.VALUE != TransferState.State.ABORTED:
            viols.append(Violation('legacy-load', str(mgr.transfers), signature='C17:legacy-load'))
    except Exception as exc:
        viols.append(Violation('legacy-raises', repr(exc), signature='C17:legacy-raises'))
    finally:
        case.close()
    return {'executions': 1, 'violations': [{'clause': v.clause, 'detail': v.detail, 'signature': v.signature,
                                             'choices': [], 'deviations': []} for v in viols],
            'states': 1, 'transitions': 1, 'outcomes': ['legacy'], 'capped': False, 'samples': [{'case': 'legacy record'}]}


class _RawState:
    """pickles as a Transfer built from a legacy state dict"""

    def __init__(self, state):
        self.state = state

    def __reduce__(self):
        return (_rebuild, (self.state,))


def _rebuild(state):
    t = Transfer.__new__(Transfer)
    t.__setstate__(dict(state))
    return t


def restart_case(state_name: str) -> dict:
    """a full client restarted from a cache: a loaded QUEUED / INCOMPLETE / INITIALIZING download gets exactly one
    remote-queue attempt in the next cycle"""
    viols = []
    d = tempfile.mkdtemp(prefix='c17r-', dir=SCRATCH_ROOT)
    try:
        st = TransferState.State[state_name]
        t = make_transfer(('bob', '@@x\\song.mp3', DL), st, 10, 4 if st != TransferState.State.QUEUED else 0)
        t2 = make_transfer(('bob', '@@x\\done.mp3', DL), TransferState.State.COMPLETE, 5, 5)
        TransferShelveCache(d).write([t, t2])
        cw = ClientWorld(horizon=30.0, transfer_cache=TransferShelveCache(d),
                         settings={'shares': {'scan_on_start': False, 'download': d}})
        try:
            peer = cw.peer('bob', '10.0.8.1', port=7200)
            cw.server.auto[M.GetPeerAddress.Request] = lambda srv, msg: srv.send(
                M.GetPeerAddress.Response(msg.username, '10.0.8.1', 7200, 0, 0))
            cw.server.auto[M.AddUser.Request] = lambda srv, msg: srv.send(
                M.AddUser.Response(msg.username, True, 2, __import__('aioslsk').protocol.primitives.UserStats(1, 1, 1, 1), 'BE'))
            cw.start()
            cw.world.horizon = 5.0
            cw.world.run()
            queued = [m for _, m in peer.received if isinstance(m, M.PeerTransferQueue.Request)]
            names = [m.filename for m in queued]
            if names.count('@@x\\song.mp3') != 1:
                viols.append(Violation('restart-scheduling', f"loaded {state_name} download: PeerTransferQueue frames "
                                       f"seen by the peer within 5 s: {names}", signature=f'C17:restart-scheduling:{state_name}'))
            if '@@x\\done.mp3' in names:
                viols.append(Violation('restart-requeued-complete', str(names), signature='C17:restart-requeued-complete'))
        finally:
            cw.close()
    except Exception as exc:
        viols.append(Violation('restart-raises', repr(exc), signature='C17:restart-raises'))
    finally:
        shutil.rmtree(d, ignore_errors=True)
    return {'executions': 1, 'violations': [{'clause': v.clause, 'detail': v.detail, 'signature': v.signature,
                                             'choices': [], 'deviations': []} for v in viols],
            'states': 1, 'transitions': 1, 'outcomes': [f'restart-{state_name}'], 'capped': False,
            'samples': [{'case': f'restart with a {state_name} download'}]}


def scenarios(tier: str):
    cases = all_cases(tier)
    out = []
    chunk = 60
    for i in range(0, len(cases), chunk):
        out.append({'kind': 'cases', 'start': i, 'end': min(len(cases), i + chunk)})
    out.append({'kind': 'legacy'})
    for s in ('QUEUED', 'INCOMPLETE', 'INITIALIZING', 'DOWNLOADING', 'PAUSED', 'FAILED'):
        out.append({'kind': 'legacy-queued', 'state': s})
    for s in ('QUEUED', 'INCOMPLETE', 'INITIALIZING', 'DOWNLOADING'):
        out.append({'kind': 'restart', 'state': s})
    return out


_CASES: dict = {}


def run_scenario(params: dict, tier: str) -> dict:
    if params['kind'] == 'legacy':
        return legacy_case()
    if params['kind'] == 'legacy-queued':
        return legacy_queued_case(params['state'])
    if params['kind'] == 'restart':
        return restart_case(params['state'])
    if tier not in _CASES:
        _CASES[tier] = all_cases(tier)
    return run_cases(_CASES[tier][params['start']:params['end']])


def replay(params: dict, choices: list, tier: str = 'quick') -> dict:
    return {'violations': run_scenario(params, tier)['violations']}
