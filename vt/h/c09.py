"""C09 — peer-chosen names never escape the download directory or clobber a file.

(C) every remote path over the component / separator alphabets x every ordered
    chain of the shipped naming strategies x pre-existing directory contents,
    through the real ``chain_strategies`` / ``SharesManager.calculate_download_path``;
(A) two or three downloads of equally named files from different users through
    the real download path of the ``TransferManager`` with lazily delivered
    executor jobs: all interleavings of their start-ups within the deviation bound.
"""
from __future__ import annotations
import itertools
import os
import shutil
import tempfile

from ..common import ERRORS
from ..world import Violation

from aioslsk.naming import (
    DefaultNamingStrategy, KeepDirectoryStrategy, NumberDuplicateStrategy, chain_strategies)

PROPERTY = 'C09'
LEVEL = 'model_checking'
RULE = ("(C) remote paths of <=3 (quick) / <=4 (thorough) components over a 10-symbol alphabet x separators x leading/"
        "trailing separators x 15 ordered strategy chains x 6 directory contents; (A) every schedule within the "
        "deviation bound of 2-3 concurrent downloads of equally named files; distinct = distinct (path, chain, content) inputs")
ASSUMPTIONS = [
    "component alphabet: '..', '.', '', '@@abcde', 'C:', 'dir', 'song.mp3', non-ASCII, 255-char and already numbered names",
    "an exception raised by a strategy is a rejection (no path chosen), not a violation",
    "uniqueness ('does not exist yet') is judged for chains that end with the duplicate-numbering strategy",
]

SCRATCH_ROOT = '/dev/shm' if os.path.isdir('/dev/shm') else tempfile.gettempdir()
LONG = 'b' * 251 + '.mp3'       # 255 characters with an extension: numbering it exceeds the usual name limit
COMPONENTS = ['song.mp3', '..', '.', '', '@@abcde', 'C:', 'dir', 'é片.mp3', 'a' * 255, 'song (1).mp3', 'a+b [x].mp3', LONG]
SEPS = ['\\', '/', '\\\\', '/\\']
STRATS = {'D': DefaultNamingStrategy, 'K': KeepDirectoryStrategy, 'N': NumberDuplicateStrategy}
CHAINS = [c for n in (1, 2, 3) for c in itertools.permutations('DKN', n)]
CONTENTS = {
    'empty': [], 'one': ['song.mp3'], 'two': ['song.mp3', 'song (1).mp3'], 'gap': ['song (2).mp3'],
    'sub': ['dir/song.mp3'], 'dirnamed': ['song.mp3/'],
    'meta': ['a+b [x].mp3', 'a+b [x] (1).mp3', 'song (1).mp3', 'song (1) (1).mp3'],
    'long': ['a' * 255, LONG, 'dir/' + LONG],
}


def make_contents(base):
    dirs = {}
    for name, entries in CONTENTS.items():
        d = os.path.join(base, name, 'downloads')
        os.makedirs(d, exist_ok=True)
        for e in entries:
            p = os.path.join(d, e)
            if e.endswith('/'):
                os.makedirs(p, exist_ok=True)
            else:
                os.makedirs(os.path.dirname(p), exist_ok=True)
                with open(p, 'wb') as fh:
                    fh.write(b'keep')
        # a sibling that an escaping path would hit
        with open(os.path.join(base, name, 'outside.txt'), 'wb') as fh:
            fh.write(b'outside')
        dirs[name] = d
    return dirs


def remote_paths(maxlen):
    seen = set()
    for n in range(1, maxlen + 1):
        for comps in itertools.product(COMPONENTS, repeat=n):
            for sep in SEPS:
                core = sep.join(comps)
                for lead, trail in (('', ''), (sep, ''), ('', sep), (sep, sep)):
                    p = lead + core + trail
                    if p not in seen:
                        seen.add(p)
                        yield p


def check_choice(remote, chain, content, dl_dir, result, add, via='chain_strategies'):
    path, filename = result
    full = os.path.join(path, filename)
    real_dl = os.path.realpath(dl_dir)
    real = os.path.realpath(full)
    label = f"{via}: remote {remote[:60]!r} chain {''.join(chain)} content {content}"
    if filename == '' and 'D' not in chain:
        # a chain without the default strategy never determines a file name: only containment is judged
        if not (os.path.realpath(path) + os.sep).startswith(real_dl + os.sep):
            add('escapes', f"{label}: directory {path!r} resolves outside {real_dl!r}", 'C09:escapes')
        return
    if filename in ('', '.', '..'):
        add('bad-filename', f"{label}: file name {filename!r} (directory {os.path.relpath(path, dl_dir)!r})",
            f"C09:bad-filename:{filename or 'empty'}")
        return
    if '/' in filename or '\\' in filename:
        add('separator-in-filename', f"{label}: {filename!r}", 'C09:separator-in-filename')
    if not (real.startswith(real_dl + os.sep)):
        add('escapes', f"{label}: chosen {full!r} resolves to {real!r}, outside {real_dl!r}", 'C09:escapes')
        return
    if chain[-1] == 'N' and os.path.lexists(full):
        add('exists', f"{label}: chosen path {os.path.relpath(full, dl_dir)!r} already exists", 'C09:exists')


def run_inputs(part, parts, maxlen) -> dict:
    base = tempfile.mkdtemp(prefix='c09-', dir=SCRATCH_ROOT)
    viols, sigs = [], set()

    def add(clause, detail, sig):
        if sig not in sigs:
            sigs.add(sig)
            viols.append(Violation(clause, detail, signature=sig))
    n = 0
    rejected = 0
    outcomes = set()
    sample = None
    try:
        dirs = make_contents(base)
        chains = [(c, [STRATS[x]() for x in c]) for c in CHAINS]
        # the manager's entry point (what a download actually uses), default chain of the library
        from aioslsk.shares.manager import SharesManager
        from aioslsk.events import EventBus
        from ..common import make_settings
        msettings = make_settings(_copy=True)
        manager = SharesManager(msettings, EventBus(), None)
        mchain = tuple('DKN'[[DefaultNamingStrategy, KeepDirectoryStrategy, NumberDuplicateStrategy].index(type(x))]
                       for x in manager.naming_strategies)
        for i, remote in enumerate(remote_paths(maxlen)):
            if i % parts != part:
                continue
            for content, dl_dir in dirs.items():
                msettings.shares.download = dl_dir
                n += 1
                try:
                    mresult = manager.calculate_download_path(remote)
                except Exception:
                    rejected += 1
                else:
                    outcomes.add(hash((remote, 'manager', content)))
                    check_choice(remote, mchain, content, dl_dir, mresult, add, via='calculate_download_path')
                for chain, strategies in chains:
                    n += 1
                    try:
                        result = chain_strategies(strategies, remote, dl_dir)
                    except Exception:
                        rejected += 1
                        continue
                    outcomes.add(hash((remote, chain, content)))
                    check_choice(remote, chain, content, dl_dir, result, add)
                    if sample is None:
                        sample = {'remote': remote, 'chain': ''.join(chain), 'content': content,
                                  'chosen': os.path.relpath(os.path.join(*result), dl_dir)}
    finally:
        shutil.rmtree(base, ignore_errors=True)
    return {'executions': n, 'violations': [{'clause': v.clause, 'detail': v.detail, 'signature': v.signature,
                                             'choices': [], 'deviations': []} for v in viols],
            'states': 0, 'transitions': 0, 'outcomes': [f'i{o}' for o in outcomes], 'capped': False,
            'samples': [sample], 'extra': {'rejected_by_exception': rejected}}


def scenarios(tier: str):
    out = []
    parts = 32 if tier == 'quick' else 128
    for p in range(parts):
        out.append({'kind': 'inputs', 'part': p, 'parts': parts, 'maxlen': 3 if tier == 'quick' else 4})
    try:
        from . import c09_sched
        out.extend(c09_sched.scenarios(tier))
    except ImportError:
        pass
    return out


def run_scenario(params: dict, tier: str) -> dict:
    if params['kind'] == 'inputs':
        return run_inputs(params['part'], params['parts'], params['maxlen'])
    from . import c09_sched
    return c09_sched.run_scenario(params, tier)


def replay(params: dict, choices: list, tier: str = 'quick') -> dict:
    if params['kind'] == 'inputs':
        return {'violations': run_scenario(params, tier)['violations']}
    from . import c09_sched
    return c09_sched.replay(params, choices, tier)
