"""C04 — COMPLETE means the whole file arrived intact; resuming never corrupts it.

(a) the real downloader (full client, real files) against a scripted uploader:
    every cut point / cut kind / size / segmentation / limiter, dishonest
    senders, a fault before a clean attempt;
(b) the real uploader against a scripted downloader: offsets, early close, reset.
The explorer's schedule deviations order the control messages against the file
connection on a subset.
"""
from __future__ import annotations
import os
import shutil
import tempfile

from ..common import ERRORS
from ..world import Violation
from ..transferworld import TransferWorld
from ..explore import Chooser, explore

from aioslsk.transfer.state import TransferState
from aioslsk.protocol import messages as M

PROPERTY = 'C04'
LEVEL = 'fault_enumeration'
RULE = ("download: size x cut kind x every cut byte (all for sizes <=129, chunk boundaries +-1 otherwise) x "
        "segmentation x limiter x dishonest sender kinds, one faulty attempt before a clean one; upload: size x "
        "offset x downloader close/reset points; distinct_nontrivial = distinct fault placements executed")
ASSUMPTIONS = [
    "TCP abstracted to in-order chunk delivery with EOF / reset at a byte position",
    "scripted peer implements the transfer protocol of DESIGN.md Appendix A",
    "liveness horizon 400 virtual seconds after the last fault",
]

SCRATCH_ROOT = '/dev/shm' if os.path.isdir('/dev/shm') else tempfile.gettempdir()
REMOTE = '@@abcde\\music\\song.mp3'


def content(size: int) -> bytes:
    return bytes((i * 31 + 7) & 0xFF for i in range(size))


def run_download(params: dict, chooser=None) -> dict:
    ERRORS.records.clear()
    base = tempfile.mkdtemp(prefix='c04-', dir=SCRATCH_ROOT)
    viols, sigs = [], set()

    def add(clause, detail, sig):
        if sig not in sigs:
            sigs.add(sig)
            viols.append(Violation(clause, detail, signature=sig))
    size = params['size']
    src = content(size)
    limit = params.get('limit', 0)
    try:
        st = {'network': {'limits': {'download_speed_kbps': limit}}}
        tw = TransferWorld(base_dir=base, horizon=params.get('horizon', 500.0), settings=st, chooser=chooser)
        try:
            bob = tw.remote('bob', '10.0.9.1', 7300)
            bob.files[REMOTE] = src
            bob.segment = params.get('segment')
            bob.split_handshake = params.get('split')
            bob.late_upload_failed = bool(params.get('stale_failed'))
            dis = params.get('dishonest')
            if dis == 'short':
                bob.send_short = max(0, size - 3)
            elif dis == 'long':
                bob.send_extra = b'EXTRA'
            elif dis == 'claims-less':
                bob.lie_filesize = max(0, size - 2)
            elif dis == 'claims-more':
                bob.lie_filesize = size + 5
            tw.start(scan=False)
            cut = params.get('cut')          # (k file bytes, 'eof'|'reset') applied to the first file connection
            seen_conns = []
            offsets_sent = []

            def watch():
                # arm the cut on the first file connection as soon as it exists
                for off in bob.offers.values():
                    pc = off.get('conn')
                    if pc is not None and pc not in seen_conns:
                        seen_conns.append(pc)
                        arm_write_probe(pc, off)
                        if cut is not None and len(seen_conns) == 1:
                            # k counts the 4 ticket bytes and then the file bytes (the init frame precedes them)
                            init_len = pc.end.conn.bytes_sent[0] - 4
                            pc.end.conn.cut_after[1] = (init_len + cut[0], cut[1])
            tw.world.boundary_hooks.append(watch)
            if params.get('reoffer'):
                # the uploader (its user, or its own retry logic) offers the file again once the download has failed
                reoffered = []

                def reoffer():
                    trs = tw.client.transfers.get_downloads()
                    if trs and trs[0].state.VALUE == TransferState.State.FAILED and not reoffered:
                        reoffered.append(1)
                        bob.offer(REMOTE)
                tw.world.boundary_hooks.append(reoffer)
            _orig_open = bob._open_file_connection

            def open_and_arm(ticket):
                _orig_open(ticket)
                watch()
            bob._open_file_connection = open_and_arm

            def arm_write_probe(pc, off):
                # the local file size at the moment the library *writes* its offset on this file connection
                def on_write(src, data, off=off):
                    if src == 1 and len(data) == 8 and 'local_size' not in off:
                        trs = tw.client.transfers.get_downloads()
                        lp = trs[0].local_path if trs else None
                        off['local_size'] = os.path.getsize(lp) if lp and os.path.exists(lp) else 0
                pc.end.conn.on_write = on_write

            async def dl():
                return await tw.client.transfers.download('bob', REMOTE)
            slot = tw.world.op('u', 'download', dl, record=False)
            tw.world.deviations = chooser is not None
            tw.world.run()
            tr = slot.get('result')
            if tr is None:
                if slot['state'] != 'waiting':
                    add('download-call-failed', str(slot.get('exc_obj')), 'C04:download-call-failed')
                return _ret(viols, tw, params)
            state = tr.state.VALUE
            local = tr.local_path
            stuck = any(ev.held or ev.lost for ev in tw.world.pending) or chooser is not None     # 'eventually' clauses are judged on the fault-enumeration runs only (the scripted peer has no retry timers)
            data = open(local, 'rb').read() if local and os.path.exists(local) else None
            announced = bob.lie_filesize if bob.lie_filesize is not None else size
            attempts = [o for o in bob.offers.values()]
            # offsets the library sent on each attempt vs the local file size at that moment is checked through
            # the final content: a wrong offset shows as a corrupt file; additionally compare the 2nd offset directly
            if state == TransferState.State.COMPLETE:
                if data is None:
                    add('complete-without-file', f"{params}: COMPLETE but no local file", 'C04:complete-without-file')
                elif len(data) != announced or data != src[:announced] or (dis is None and data != src):
                    add('complete-but-corrupt', f"{params}: COMPLETE with {len(data)} bytes (announced {announced}, "
                        f"source {size}); first difference at {_first_diff(data, src)}; offsets sent "
                        f"{[o.get('offset') for o in attempts]}", f"C04:complete-but-corrupt:{dis or 'honest'}")
                if dis in ('short', 'claims-more'):
                    add('complete-on-short-data', f"{params}: sender delivered fewer bytes than announced",
                        f'C04:complete-on-short-data:{dis}')
            if params.get('reoffer') and state == TransferState.State.COMPLETE and local is not None:
                others = [f for f in os.listdir(os.path.dirname(local)) if os.path.join(os.path.dirname(local), f) != local]
                if others:
                    add('orphaned-partial-file', f"{params}: finished as {os.path.basename(local)!r}, the download "
                        f"directory also holds {others}", 'C04:orphaned-partial-file')
            if cut is not None:
                first = attempts[0] if attempts else None
                for a in attempts[1:]:
                    if a.get('offset') is not None and a['offset'] != a.get('local_size'):
                        add('resume-offset', f"{params}: a later attempt resumed at offset {a['offset']} while the local "
                            f"file held {a.get('local_size')} bytes", 'C04:resume-offset')
                if len(attempts) >= 2 and attempts[1].get('offset') is not None and cut[0] >= 4 and cut[1] == 'eof':
                    want = min(max(cut[0] - 4, 0), size)
                    if attempts[1]['offset'] != want:
                        add('prefix-lost', f"{params}: {want} file bytes were delivered before the clean close, the "
                            f"next attempt resumed at {attempts[1]['offset']}", 'C04:prefix-lost')
                if state not in (TransferState.State.COMPLETE,) and not stuck:
                    # the faults stopped after the first attempt: the pair should finish without user action
                    if state in (TransferState.State.INCOMPLETE, TransferState.State.FAILED,
                                 TransferState.State.QUEUED, TransferState.State.INITIALIZING,
                                 TransferState.State.DOWNLOADING):
                        if data is not None and cut[0] >= 4 and data != src[:len(data)]:
                            add('prefix-corrupt', f"{params}: local file after the cut is not a prefix of the source",
                                'C04:prefix-corrupt')
                        kind = cut[1]
                        phase = 'handshake' if cut[0] < 4 else 'data'
                        add('never-finishes', f"{params}: after a {kind} cut ({phase}) the download is "
                            f"{state.name}({tr.fail_reason}) with {len(data) if data is not None else None} of {size} "
                            f"bytes at t={tw.world.now():.0f}, {len(attempts)} attempts were made",
                            f"C04:never-finishes:{kind}:{phase}:{state.name}:{tr.fail_reason}")
            elif dis is None and state != TransferState.State.COMPLETE and not stuck:
                add('honest-transfer-not-complete', f"{params}: {state.name}({tr.fail_reason})",
                    f'C04:honest-transfer-not-complete:{state.name}')
            unret = [u for u in tw.world.unretrieved_task_exceptions() if 'queue-message-task' not in u]
            if unret:
                add('task-exception', unret[0], 'C04:task-exception:' + unret[0].split(':', 1)[1].strip()[:40])
            return _ret(viols, tw, params, obs=(state.name, tr.fail_reason, len(data) if data is not None else None,
                                                tuple(o.get('offset') for o in attempts)))
        finally:
            tw.close()
    finally:
        shutil.rmtree(base, ignore_errors=True)


def _first_diff(a, b):
    for i, (x, y) in enumerate(zip(a, b)):
        if x != y:
            return i
    return min(len(a), len(b))


def _ret(viols, tw, params, obs=None):
    return {'violations': viols, 'obs': obs, 'transitions': tw.world.loop.batches, 'trace': list(tw.world.trace)}


def run_upload(params: dict, chooser=None) -> dict:
    ERRORS.records.clear()
    base = tempfile.mkdtemp(prefix='c04u-', dir=SCRATCH_ROOT)
    viols, sigs = [], set()

    def add(clause, detail, sig):
        if sig not in sigs:
            sigs.add(sig)
            viols.append(Violation(clause, detail, signature=sig))
    size = params['size']
    src = content(size)
    try:
        st = {'network': {'limits': {'upload_speed_kbps': params.get('limit', 0)}}}
        tw = TransferWorld(base_dir=base, horizon=params.get('horizon', 300.0), settings=st, chooser=chooser)
        try:
            tw.share_file('music/song.mp3', src)
            bob = tw.remote('bob', '10.0.9.1', 7300)
            offset = params.get('offset', 0)
            bob.offset_to_send = lambda path: offset
            bob.close_after = params.get('close_after')
            bob.split_handshake = params.get('split')
            ra = params.get('reset_after')
            if ra is not None:
                # the downloader's connection is reset (not closed) after k bytes; k = size: after the last byte, in
                # the window in which the uploader waits for the close
                def got(pc, info, data, ra=ra):
                    info['data'] += data
                    if len(info['data']) >= ra and not info.get('reset_done'):
                        info['reset_done'] = True
                        pc.reset()
                bob._got_file_bytes = got
            tw.start(scan=True)
            rp = tw.remote_path_of('music/song.mp3')
            pc = bob.ensure_p_conn()
            pc.send(M.PeerTransferQueue.Request(rp))
            tw.world.deviations = chooser is not None
            tw.world.run()
            ups = tw.client.transfers.get_uploads()
            stuck = any(ev.held or ev.lost for ev in tw.world.pending) or chooser is not None     # 'eventually' clauses are judged on the fault-enumeration runs only (the scripted peer has no retry timers)
            if not ups and stuck:
                return _ret(viols, tw, params)
            if not ups:
                add('no-upload', f"{params}: the queue request created no upload", 'C04:no-upload')
                return _ret(viols, tw, params)
            up = ups[0]
            state = up.state.VALUE
            infos = list(bob.received_files.values())
            got = bytes(infos[-1]['data']) if infos else b''
            if state == TransferState.State.COMPLETE:
                want = src[offset:] if offset <= size else b''
                if params.get('close_after') is not None or params.get('reset_after') is not None:
                    pass     # the downloader hung up early: what it kept says nothing about what was sent
                elif got != want:
                    add('upload-complete-but-short', f"{params}: upload COMPLETE but the peer received {len(got)} bytes "
                        f"from offset {offset}, source has {len(want)} from there (first difference at "
                        f"{_first_diff(got, want)})", f"C04:upload-complete-but-wrong:{'offset' if offset else 'plain'}")
                if infos and not infos[-1]['conn'].closed:
                    add('upload-complete-before-close', f"{params}: COMPLETE while the peer has not closed",
                        'C04:upload-complete-before-close')
            elif params.get('reset_after') is not None:
                if state in (TransferState.State.UPLOADING, TransferState.State.INITIALIZING) and not stuck:
                    add('upload-stuck', f"{params}: the downloader's connection was reset, {tw.world.now():.0f} s later the "
                        f"upload is still {state.name}", f'C04:upload-stuck:{state.name}')
            elif params.get('close_after') is None and offset <= size and not stuck:
                add('honest-upload-not-complete', f"{params}: {state.name}({up.fail_reason}) peer got {len(got)} bytes",
                    f'C04:honest-upload-not-complete:{state.name}')
            return _ret(viols, tw, params, obs=(state.name, up.fail_reason, len(got)))
        finally:
            tw.close()
    finally:
        shutil.rmtree(base, ignore_errors=True)


def download_cases(tier):
    sizes = [0, 1, 127, 128, 129, 8191, 8192, 8193, 20000]
    out = []
    for size in sizes:
        out.append({'kind': 'download', 'size': size})
        for seg in ([1] if size <= 129 else []) + [4097]:
            out.append({'kind': 'download', 'size': size, 'segment': seg})
        if size <= 8193:
            out.append({'kind': 'download', 'size': size, 'limit': 1, 'horizon': 600.0})
        for dis in ('short', 'long', 'claims-less', 'claims-more'):
            if size >= 5:
                out.append({'kind': 'download', 'size': size, 'dishonest': dis})
        if size in (1, 129, 8193):
            # the ticket arrives in pieces
            for split in (1, 3):
                out.append({'kind': 'download', 'size': size, 'split': split})
                out.append({'kind': 'download', 'size': size, 'split': split, 'cut': [4 + size // 2, 'reset']})
        if size in (129, 8193):
            # the download failed on a clean EOF; later the uploader offers the file again: resume, same path
            for k in (4 + 1, 4 + size // 2, 4 + size - 1):
                out.append({'kind': 'download', 'size': size, 'cut': [k, 'eof'], 'reoffer': True})
        if size == 20000:
            # the report about the broken first attempt arrives while the second attempt is receiving
            for kind in ('eof', 'reset'):
                out.append({'kind': 'download', 'size': size, 'limit': 4, 'cut': [4 + 5000, kind], 'stale_failed': True})
        # cuts (k counts the 4 ticket bytes first)
        if size <= 129:
            ks = list(range(0, size + 4 + 1))
        else:
            ks = sorted({0, 2, 4, 5, 4 + 127, 4 + 128, 4 + 129, 4 + 8191, 4 + 8192, 4 + 8193, 4 + size - 1, 4 + size // 2}
                        & set(range(0, size + 4)))
        if tier == 'quick' and size in (127, 129, 8191, 8193):
            ks = ks[::4]
        for k in ks:
            for kind in ('eof', 'reset'):
                out.append({'kind': 'download', 'size': size, 'cut': [k, kind]})
                if size in (128, 8192) and tier != 'quick':
                    out.append({'kind': 'download', 'size': size, 'cut': [k, kind], 'segment': 4097 if size > 128 else 1})
                if size == 128 and k % 16 == 0:
                    out.append({'kind': 'download', 'size': size, 'cut': [k, kind], 'limit': 1, 'horizon': 700.0})
    return out


def upload_cases(tier):
    out = []
    for size in [0, 1, 128, 8192, 8193, 20000]:
        for offset in sorted({0, size // 2, size, size + 3}):
            out.append({'kind': 'upload', 'size': size, 'offset': offset})
        if size in (1, 128, 8193):
            for split in (1, 3, 5):
                out.append({'kind': 'upload', 'size': size, 'split': split})
                out.append({'kind': 'upload', 'size': size, 'split': split, 'offset': size // 2})
        if size >= 1:
            for ra in sorted({1, size // 2, size - 1, size} - {0}):
                out.append({'kind': 'upload', 'size': size, 'reset_after': ra})
        if size >= 128:
            for ca in sorted({1, 127, size // 2, size - 1}):
                out.append({'kind': 'upload', 'size': size, 'close_after': ca})
            out.append({'kind': 'upload', 'size': size, 'limit': 1, 'horizon': 900.0 if size <= 8193 else 2000.0})
    return out


def scenarios(tier: str):
    cases = download_cases(tier) + upload_cases(tier)
    out = []
    for i in range(0, len(cases), 8):
        out.append({'cases': cases[i:i + 8]})
    # schedule deviations on a few representative cases
    for case in ({'kind': 'download', 'size': 129}, {'kind': 'download', 'size': 8193, 'cut': [4 + 100, 'reset']},
                 {'kind': 'upload', 'size': 8193}):
        out.append({'dev': case})
    return out


def weight(params, tier):
    return 30 if 'dev' in params else 8


def run_scenario(params: dict, tier: str) -> dict:
    if 'dev' in params:
        case = params['dev']
        fn = run_download if case['kind'] == 'download' else run_upload
        res = explore(lambda ch: fn(case, ch), bound=1, max_exec=600 if tier == 'quick' else 5000)
        return {'executions': res.executions, 'violations': res.violations, 'states': 0, 'transitions': res.transitions,
                'outcomes': list(res.outcomes), 'capped': False, 'bound': 1, 'samples': res.samples}
    viols, sigs = [], set()
    n = 0
    outcomes = set()
    transitions = 0
    sample = None
    for case in params['cases']:
        out = (run_download if case['kind'] == 'download' else run_upload)(case)
        n += 1
        transitions += out['transitions']
        outcomes.add(repr((sorted(case.items(), key=str), out['obs'])))
        if sample is None:
            sample = {'case': case, 'outcome': out['obs']}
        for v in out['violations']:
            if v.signature not in sigs:
                sigs.add(v.signature)
                viols.append({'clause': v.clause, 'detail': v.detail, 'signature': v.signature,
                              'choices': [], 'deviations': [], 'case': case})
    return {'executions': n, 'violations': viols, 'states': 0, 'transitions': transitions,
            'outcomes': [f'{hash(o)}' for o in outcomes], 'capped': False, 'samples': [sample]}


def replay(params: dict, choices: list, tier: str = 'quick') -> dict:
    if 'dev' in params:
        case = params['dev']
        fn = run_download if case['kind'] == 'download' else run_upload
        out = fn(case, Chooser(choices))
        return {'violations': [str(v) for v in out['violations']], 'trace': out['trace'], 'obs': out['obs']}
    res = []
    for case in params['cases']:
        out = (run_download if case['kind'] == 'download' else run_upload)(case)
        if out['violations']:
            res.append({'case': case, 'violations': [str(v) for v in out['violations']], 'obs': out['obs']})
    return {'violations': res}
