"""C05 — active uploads never exceed the slot limit or one per user; priority holds.

Transfer world with shared files and scripted downloader peers (different
status / friend / privilege classes).  Histories over {queue request, upload
completes / fails, user abort, slot limit change, status change}; the invariants
are evaluated at every iteration boundary; quick explores the default schedule
of every history plus one schedule deviation on a subset.
"""
from __future__ import annotations
import itertools
import os
import shutil
import tempfile

from ..common import ERRORS
from ..world import Violation
from ..transferworld import TransferWorld
from ..explore import Chooser, explore

from aioslsk.transfer.state import TransferState
from aioslsk.transfer.model import TransferDirection
from aioslsk.protocol import messages as M

PROPERTY = 'C05'
LEVEL = 'model_checking'
RULE = ("histories (<=4 quick, <=5 thorough) over {queue(u,f), done(u), fail(u), abort(u), slots(n), status(u,s)} for "
        "slot limits 0..2 and user populations over privilege / friend / status classes; invariants at every iteration "
        "boundary; schedule deviations (bound 1) on a subset; distinct = distinct (history, observation) pairs")
ASSUMPTIONS = [
    "scripted downloader peers keep the file connection open until the history closes it (upload stays UPLOADING)",
    "reference ranking: privileged > friend > online/away > unknown; offline users are never started; ties are free",
    "after each event one virtual second passes (management cycles run >= 0.05 s after a request)",
]

SCRATCH_ROOT = '/dev/shm' if os.path.isdir('/dev/shm') else tempfile.gettempdir()
USERS = {
    'priv': {'ip': '10.0.9.1', 'port': 7401, 'status': 2, 'privileged': True, 'friend': False},
    'friend': {'ip': '10.0.9.2', 'port': 7402, 'status': 2, 'privileged': False, 'friend': True},
    'plain': {'ip': '10.0.9.3', 'port': 7403, 'status': 1, 'privileged': False, 'friend': False},
    'offline': {'ip': '10.0.9.4', 'port': 7404, 'status': 0, 'privileged': False, 'friend': False},
}
FILES = ['a.mp3', 'b.mp3']


def rank(info) -> int:
    """info = what the server has told the library about the user so far (status None = nothing yet: unknown)"""
    if info['status'] == 0:
        return -1
    if info['status'] == 'ambiguous':
        return -2
    r = 0
    if info['status'] in (1, 2):
        r += 1
    if info['friend']:
        r += 5
    if info['privileged']:
        r += 100
    return r


class Rig:
    def __init__(self, slots, users, chooser=None):
        self.base = tempfile.mkdtemp(prefix='c05-', dir=SCRATCH_ROOT)
        self.info = {u: dict(USERS[u]) for u in users}
        st = {'transfers': {'limits': {'upload_slots': slots}, 'report_interval': 30.0},
              'users': {'friends': [u for u in users if USERS[u]['friend']]}}
        self.tw = TransferWorld(base_dir=self.base, horizon=400.0, chooser=chooser, settings=st)
        tw = self.tw
        for f in FILES:
            tw.share_file(f, b'D' * 3000)
        self.remotes = {}
        for u in users:
            r = tw.remote(u, self.info[u]['ip'], self.info[u]['port'])
            r.close_after = None
            # keep the upload UPLOADING until the history says otherwise
            r._got_file_bytes = (lambda pc, info, data, r=r: info['data'].extend(data))
            self.remotes[u] = r
            tw.user_status[u] = self.info[u]['status']
        tw.server.auto[M.AddUser.Request] = self._add_user
        tw.start(scan=True)
        privs = [u for u in users if self.info[u]['privileged']]
        tw.server.send(M.PrivilegedUsers.Response(privs))
        tw.world.run_default_until_idle()
        self.rp = {f: tw.remote_path_of(f) for f in FILES}
        self.viols: list[Violation] = []
        self.sigs: set = set()
        self.explore = chooser is not None
        # what the library has been told so far (the reference ranks by this, not by the truth it cannot know yet)
        self.known = {u: {'status': None, 'friend': self.info[u]['friend'],
                          'privileged': self.info[u]['privileged']} for u in users}
        tw.world.keep.append(self)
        from aioslsk.events import MessageReceivedEvent
        tw.client.events.register(MessageReceivedEvent, self._on_msg, priority=0)
        self.slot_log = [(0.0, slots)]
        self.started: dict = {}        # id(upload) -> time it entered INITIALIZING
        self.active_prev: set = set()
        tw.world.boundary_hooks.append(self.on_boundary)

    def _add_user(self, srv, msg):
        from ..transferworld import STATS
        info = self.info.get(msg.username)
        status = info['status'] if info else 2
        srv.send(M.AddUser.Response(msg.username, True, status, STATS, 'BE'))

    def _on_msg(self, event):
        m = event.message
        name = getattr(m, 'username', None)
        if name in self.known:
            # the library keeps users in a weak table: what it is told about a user it has no unfinished
            # transfer with (nothing tracks that user) is forgotten at once
            tracked = any(t.username == name and not t.is_finalized() for t in self.tw.client.transfers.transfers)
            if not tracked:
                if isinstance(m, M.GetUserStatus.Response):
                    self.known[name]['status'] = 'ambiguous'     # may or may not be remembered: not judged
                return
        if isinstance(m, M.AddUser.Response) and m.username in self.known and m.exists:
            self.known[m.username]['status'] = m.status
            self.known[m.username]['t'] = self.tw.world.now()
        elif isinstance(m, M.GetUserStatus.Response) and m.username in self.known:
            self.known[m.username]['status'] = m.status
            self.known[m.username]['privileged'] = m.privileged
            self.known[m.username]['t'] = self.tw.world.now()

    def add(self, clause, detail, sig):
        if sig not in self.sigs:
            self.sigs.add(sig)
            self.viols.append(Violation(clause, detail, signature=sig))

    # --- invariants at every boundary ---------------------------------------------------------------------
    def uploads(self):
        return [t for t in self.tw.client.transfers.transfers if t.direction == TransferDirection.UPLOAD]

    def on_boundary(self):
        now = self.tw.world.now()
        ups = self.uploads()
        # a user who is not a friend and has no unfinished transfer left is untracked and its (weakly held) user
        # object goes away: what the library knew about that user is forgotten at some point from here on, until
        # the server tells it again
        for name, k in self.known.items():
            if not k['friend'] and k['status'] not in (None, 'ambiguous') and \
                    not any(t.username == name and not t.is_finalized() for t in self.tw.client.transfers.transfers):
                k['status'] = 'ambiguous'
        active = [t for t in ups if t.state.VALUE in (TransferState.State.INITIALIZING, TransferState.State.UPLOADING)]
        newly = [t for t in active if id(t) not in self.active_prev]
        for t in newly:
            self.started[id(t)] = now
        busy_prev_now = getattr(self, 'busy_now', set())
        self.busy_prev = busy_prev_now
        self.busy_now = {t.username for t in active}
        self.active_prev = {id(t) for t in active}
        if active:
            youngest = max(self.started.get(id(t), 0.0) for t in active)
            limit = [n for ts, n in self.slot_log if ts <= youngest + 1e-9][-1]
            if len(active) > limit:
                self.add('slots-exceeded', f"t={now:.2f}: {len(active)} uploads initialising/uploading "
                         f"({[(t.username, t.state.VALUE.name) for t in active]}), limit {limit} since "
                         f"{[x for x in self.slot_log]}", f'C05:slots-exceeded:{len(active)}>{limit}')
        per_user: dict = {}
        for t in active:
            per_user.setdefault(t.username, []).append(t)
        for u, ts in per_user.items():
            if len(ts) > 1:
                self.add('two-uploads-one-user', f"t={now:.2f}: user {u} has {[(t.remote_path, t.state.VALUE.name) for t in ts]}",
                         'C05:two-uploads-one-user')
        # priority of what was just started
        for t in newly:
            r_started = rank(self.known[t.username])
            if r_started == -2:
                continue
            if any(abs(k.get('t', -1) - now) < 1e-9 for k in self.known.values()):
                continue     # something was told in this very instant: the cycle may have decided just before
            if r_started < 0:
                self.add('offline-user-started', f"t={now:.2f}: upload to offline user {t.username} started",
                         'C05:offline-user-started')
            # the decision was taken during the batch that just ran: a user whose other upload was still active at the
            # previous boundary was not eligible when it was taken (its upload may have ended in the same batch)
            waiting = {x.username for x in ups if x.state.VALUE == TransferState.State.QUEUED
                       and x.username not in per_user and x.username not in self.busy_prev}
            better = [u for u in waiting if rank(self.known[u]) > r_started]
            if better:
                self.add('priority-inverted', f"t={now:.2f}: upload to {t.username} (rank {r_started}) started while "
                         f"{[(u, rank(self.known[u])) for u in better]} were queued and eligible",
                         f'C05:priority-inverted:{t.username}<{sorted(better)[0]}')

    def check_settled(self, after):
        """no free slot while an eligible queued upload exists"""
        ups = self.uploads()
        active = [t for t in ups if t.state.VALUE in (TransferState.State.INITIALIZING, TransferState.State.UPLOADING)]
        limit = self.slot_log[-1][1]
        busy_users = {t.username for t in active}
        eligible = sorted({t.username for t in ups if t.state.VALUE == TransferState.State.QUEUED
                           and t.username not in busy_users and rank(self.known[t.username]) >= 0})
        if len(active) < limit and eligible:
            self.add('slot-left-free', f"after {after}: {len(active)} of {limit} slots in use while uploads to "
                     f"{eligible} are queued and eligible", f"C05:slot-left-free:{after[0]}")

    # --- events ------------------------------------------------------------------------------------------
    def apply(self, ev):
        tw = self.tw
        kind = ev[0]
        if kind == 'q':
            r = self.remotes[ev[1]]
            pc = r.ensure_p_conn()
            if pc is not None:
                pc.send(M.PeerTransferQueue.Request(self.rp[ev[2]]))
        elif kind in ('done', 'fail'):
            r = self.remotes[ev[1]]
            for info in r.received_files.values():
                pc = info['conn']
                if not pc.closed and not info.get('finished'):
                    info['finished'] = True
                    if kind == 'done':
                        pc.close()
                    else:
                        pc.reset()
                    break
        elif kind == 'abort':
            ups = [t for t in self.uploads() if t.username == ev[1] and not t.is_finalized()]
            if ups:
                async def do(t=ups[0]):
                    try:
                        await tw.client.transfers.abort(t)
                    except Exception:
                        pass
                tw.world.op('u', f'abort-{ev[1]}', do, record=False)
        elif kind == 'requeue':
            ups = [t for t in self.uploads() if t.username == ev[1]
                   and t.state.VALUE in (TransferState.State.ABORTED, TransferState.State.FAILED)]
            if ups:
                async def do(t=ups[0]):
                    try:
                        await tw.client.transfers.queue(t)
                    except Exception:
                        pass
                tw.world.op('u', f'requeue-{ev[1]}', do, record=False)
        elif kind == 'wait':
            pass          # only time passes (a few management cycles)
        elif kind == 'slots':
            tw.client.settings.transfers.limits.upload_slots = ev[1]
            self.slot_log.append((tw.world.now(), ev[1]))
        elif kind == 'status':
            u, s = ev[1], ev[2]
            self.info[u]['status'] = s
            tw.user_status[u] = s
            tw.server.send(M.GetUserStatus.Response(u, s, self.info[u]['privileged']))
        tw.world.run_default_for(1.0, deviations=self.explore)
        if not self.explore:
            self.check_settled(ev)

    def close(self):
        self.tw.close()
        shutil.rmtree(self.base, ignore_errors=True)


def run_history(params: dict, chooser=None) -> dict:
    ERRORS.records.clear()
    rig = Rig(params['slots'], params['users'], chooser=chooser)
    try:
        for ev in params['hist']:
            rig.apply(tuple(ev))
        # let everything settle (withheld frames arrive), then the final liveness check
        rig.explore = False
        for pe in rig.tw.world.pending:
            pe.held = pe.lost = False
        rig.tw.world.run_default_for(35.0 if chooser is not None else 3.0)
        rig.check_settled(('end',))
        unret = [u for u in rig.tw.world.unretrieved_task_exceptions() if 'queue-message-task' not in u]
        if unret:
            rig.add('task-exception', unret[0], 'C05:task-exception:' + unret[0].split(':', 1)[1].strip()[:40])
        obs = tuple((t.username, os.path.basename(t.local_path or ''), t.state.VALUE.name) for t in rig.uploads())
        return {'violations': list(rig.viols), 'obs': obs, 'transitions': rig.tw.world.loop.batches,
                'trace': list(rig.tw.world.trace)}
    finally:
        rig.close()


def histories(tier):
    out = []
    pops = [['priv', 'friend', 'plain'], ['plain', 'offline'], ['friend', 'plain']]
    for slots in (0, 1, 2):
        for users in pops:
            qs = [('q', u, f) for u in users for f in FILES[:1]] + [('q', users[0], FILES[1])]
            others = [('done', users[0]), ('fail', users[0]), ('abort', users[0]), ('done', users[-1]),
                      ('slots', 0), ('slots', 1), ('slots', 2), ('status', users[-1], 2), ('status', users[0], 0)]
            # every order of the queue requests, followed by up to two other events
            for perm in itertools.permutations(qs[:3], min(3, len(qs))):
                base = list(perm)
                out.append({'slots': slots, 'users': users, 'hist': base})
                for e in others:
                    out.append({'slots': slots, 'users': users, 'hist': base + [e]})
                    if tier != 'quick':
                        for e2 in others:
                            out.append({'slots': slots, 'users': users, 'hist': base + [e, e2]})
            # one user, two files: the first leaves the active state, the second starts, the first is queued again
            if slots >= 1:
                u0 = users[0]
                for x in (('fail', u0), ('abort', u0), ('done', u0)):
                    for y in (('q', u0, FILES[0]), ('requeue', u0)):
                        out.append({'slots': slots, 'users': users, 'hist': [('q', u0, FILES[0]), ('q', u0, FILES[1]), x, y]})
                        out.append({'slots': slots, 'users': users,
                                    'hist': [('q', u0, FILES[0]), ('q', u0, FILES[1]), ('q', users[-1], FILES[0]), x, y]})
            # the limit is lowered and raised back while uploads wait (nothing else requests a cycle)
            for lo, hi in ((0, 1), (1, 2), (0, 2)):
                if slots == hi:
                    out.append({'slots': slots, 'users': users, 'hist': qs[:3] + [('slots', lo), ('slots', hi)]})
                    out.append({'slots': slots, 'users': users, 'hist': qs[:2] + [('slots', lo), qs[2], ('slots', hi)]})
            # a user with a finished transfer and a queued one (tracking must not be dropped: an offline user stays
            # offline for the scheduler)
            for u in users:
                out.append({'slots': max(slots, 1), 'users': users,
                            'hist': [('q', u, FILES[0]), ('abort', u), ('q', u, FILES[1]), ('wait',), ('wait',)]})
                out.append({'slots': max(slots, 1), 'users': users,
                            'hist': [('q', u, FILES[0]), ('status', u, 0), ('abort', u), ('q', u, FILES[1]), ('wait',), ('wait',)]})
            # interleaved: queue, event, queue
            for e in others[:6]:
                out.append({'slots': slots, 'users': users, 'hist': [qs[0], e, qs[1], qs[-1], ('done', users[0])]})
    return out


def scenarios(tier: str):
    hs = histories(tier)
    out = []
    for i in range(0, len(hs), 10):
        out.append({'batch': hs[i:i + 10]})
    dev = [h for h in hs if len(h['hist']) >= 4 and h['slots'] in (1, 2)]
    for h in (dev[::5] if tier == 'quick' else dev):
        out.append({'dev': h})
    return out


def weight(params, tier):
    return 40 if 'dev' in params else 10


def run_scenario(params: dict, tier: str) -> dict:
    if 'dev' in params:
        res = explore(lambda ch: run_history(params['dev'], ch), bound=1, max_exec=1500 if tier == 'quick' else 20000)
        return {'executions': res.executions, 'violations': res.violations, 'states': 0, 'transitions': res.transitions,
                'outcomes': list(res.outcomes), 'capped': res.capped, 'bound': res.bound_completed, 'samples': res.samples}
    viols, sigs = [], set()
    n = 0
    outcomes = set()
    transitions = 0
    sample = None
    for h in params['batch']:
        out = run_history(h)
        n += 1
        transitions += out['transitions']
        outcomes.add(repr((h, out['obs'])))
        if sample is None:
            sample = {'history': h, 'uploads': list(out['obs'])}
        for v in out['violations']:
            if v.signature not in sigs:
                sigs.add(v.signature)
                viols.append({'clause': v.clause, 'detail': v.detail, 'signature': v.signature,
                              'choices': h['hist'], 'deviations': [], 'history': h})
    return {'executions': n, 'violations': viols, 'states': len(outcomes), 'transitions': transitions,
            'outcomes': [str(hash(o)) for o in outcomes], 'capped': False, 'samples': [sample]}


def replay(params: dict, choices: list, tier: str = 'quick') -> dict:
    if 'dev' in params:
        out = run_history(params['dev'], Chooser(choices))
        return {'violations': [str(v) for v in out['violations']], 'trace': out['trace'], 'obs': out['obs']}
    res = []
    for h in params['batch']:
        out = run_history(h)
        if out['violations']:
            res.append({'history': h, 'violations': [str(v) for v in out['violations']], 'obs': out['obs']})
    return {'violations': res}
