"""C12 (commands) — every command of aioslsk.commands that waits for a response completes with the reply that
answers the request it actually sent (same ticket / user / room ...), through the real client.execute(), the real
Network and reader loops; a reply for another ticket / user / room does not complete it."""
from __future__ import annotations
import dataclasses
import inspect

from ..common import ERRORS
from ..world import Violation
from ..clientworld import ClientWorld
from ..ref import wire
from . import c01, c02

from aioslsk import commands as C
from aioslsk.protocol import messages as M
from aioslsk.network.connection import PeerConnection, ServerConnection

ECHO_FIELDS = {'ticket', 'username', 'room', 'directory', 'item'}
SAMPLE = {'username': 'bob', 'room': 'room1', 'item': 'item1', 'directory': '@@abcde\\dir', 'private': False,
          'enable': True, 'ticker': 'tick', 'message': 'hello', 'interest': 'i1', 'hated_interest': 'h1'}


def command_classes():
    out = []
    for name, cls in inspect.getmembers(C, inspect.isclass):
        if issubclass(cls, C.BaseCommand) and cls is not C.BaseCommand and 'build_expected_response' in cls.__dict__:
            out.append(name)
    return sorted(out)


def make_command(name):
    cls = getattr(C, name)
    params = [p for p in inspect.signature(cls.__init__).parameters.values()][1:]
    kwargs = {}
    for p in params:
        if p.kind in (p.VAR_POSITIONAL, p.VAR_KEYWORD):
            continue
        if p.name in SAMPLE:
            kwargs[p.name] = SAMPLE[p.name]
        elif p.default is not p.empty:
            continue
        else:
            raise KeyError(f"{name}: no sample value for parameter {p.name}")
    return cls(**kwargs)


def canonical_obj(cls):
    key = cls.__qualname__
    frame = wire.encode_message(c02.LAYOUT, key, c02.canonical(key))
    return c02.lib_obj(key, frame)


def run_command(name: str, variant: str) -> dict:
    """variant 'match': the reply echoes the request; 'other': one echoed field differs (must not complete)"""
    ERRORS.records.clear()
    viols = []
    cw = ClientWorld(horizon=60.0)
    try:
        bob = cw.peer('bob', '10.0.6.1', port=7601)
        cw.server.auto[M.GetPeerAddress.Request] = lambda srv, msg: srv.send(
            M.GetPeerAddress.Response(msg.username, '10.0.6.1', 7601, 0, 0)) if name != 'GetPeerAddressCommand' else None
        cw.start()
        client = cw.client
        world = cw.world
        probe = make_command(name).build_expected_response(client)
        if probe is None:
            return {'violations': [], 'obs': 'no-response', 'transitions': world.loop.batches}
        reply_cls = probe.message_class
        is_peer = probe.connection_class is PeerConnection
        sent: list = []
        state = {'replied': False}

        def reply_to(request, send):
            if state['replied']:
                return
            state['replied'] = True
            sent.append(request)
            obj = canonical_obj(reply_cls)
            over = {}
            names = {f.name for f in dataclasses.fields(obj)}
            # fields the waiter matches on: the request's own value where the request carries that field (a reply
            # echoes it), otherwise the value the waiter asks for
            for fname, want in (probe.fields or {}).items():
                if fname not in names:
                    continue
                if hasattr(request, fname):
                    over[fname] = getattr(request, fname)
                elif not callable(want):
                    over[fname] = want
            # identity-like fields a reply echoes from its request, whether or not the waiter matches on them
            for fname in names & ECHO_FIELDS:
                if hasattr(request, fname) and fname not in over:
                    over[fname] = getattr(request, fname)
            if variant.startswith('other'):
                echoed = sorted(f for f in over if hasattr(request, f) and (f in ECHO_FIELDS or f in (probe.fields or {})))
                idx = int(variant[5:] or 0)
                if idx >= len(echoed):
                    state['skip'] = True
                    return
                f = echoed[idx]               # each echoed field in turn: a reply differing in that field only
                v = over[f]
                over[f] = (v + 1) if isinstance(v, int) and not isinstance(v, bool) else (not v if isinstance(v, bool) else str(v) + 'x')
            send(dataclasses.replace(obj, **over))

        req_types = {}

        def on_server(srv, msg):
            reply_to(msg, srv.send)
        for cls_name, cls in inspect.getmembers(M, inspect.isclass):
            req = getattr(cls, 'Request', None)
            if req is not None and issubclass(cls, M.ServerMessage) and req not in cw.server.auto \
                    and req is not M.Login.Request:
                req_types[req] = True
        if not is_peer:
            for req in req_types:
                cw.server.auto[req] = on_server
            if name == 'GetPeerAddressCommand':
                cw.server.auto[M.GetPeerAddress.Request] = on_server
        else:
            def on_peer_msg(pc, msg):
                if not isinstance(msg, M.PeerInit.Request):
                    reply_to(msg, pc.send)
            bob.on_message = on_peer_msg
        cmd = make_command(name)

        async def run():
            return await client.execute(cmd, response=True, timeout=5)
        slot = world.op('u', name, run, record=False)
        world.run_default_for(12.0)
        outcome = slot.get('exc') or ('ok' if slot['state'] == 'done' else slot['state'])
        if state.get('skip') or not sent:
            return {'violations': [], 'obs': (name, variant, 'no-request-seen' if not sent else 'nothing-echoed'),
                    'transitions': world.loop.batches}
        if variant == 'match' and outcome != 'ok':
            viols.append(Violation(
                'command-reply-not-matched', f"{name}: sent {sent[0]!r}; the reply {reply_cls.__qualname__} echoing it did "
                f"not complete execute(response=True): {outcome} (waiter fields {probe.fields})",
                signature=f'C12:command-reply-not-matched:{name}'))
        if variant.startswith('other') and outcome == 'ok':
            viols.append(Violation(
                'command-completed-by-other-reply', f"{name}: sent {sent[0]!r}; a {reply_cls.__qualname__} for another "
                f"value of an echoed field completed the request", signature=f'C12:command-completed-by-other-reply:{name}'))
        left = [repr(f)[:100] for f in client.network._expected_response_futures]
        if left:
            viols.append(Violation('waiter-residue', f"{name} ({variant}): {left}", signature=f'C12:waiter-residue:command:{name}'))
        return {'violations': viols, 'obs': (name, variant, outcome), 'transitions': world.loop.batches}
    finally:
        cw.close()
