"""C16 — session life cycle: login advertises the settings, loss resets, stop is final.

(A) every settings combination -> the frames the scripted server holds after login
    compared with what the settings say; rejected / garbled logins; commands
    without a session.
(B) fault / stop placement: server EOF, server reset, requested disconnect and
    stop() injected at every iteration boundary of start+login+post-login burst,
    while idle, and with background work pending (hanging potential-parent
    connects, a download that cannot be queued, a search with a time-out,
    tracking requests), with auto-reconnect on and off; then 60 virtual seconds.
"""
from __future__ import annotations
import dataclasses
import itertools
import os
import shutil
import tempfile

from ..common import ERRORS
from ..world import Violation
from ..clientworld import ClientWorld

from aioslsk.protocol import messages as M
from aioslsk.protocol.primitives import UserStats
from aioslsk.events import SessionInitializedEvent, SessionDestroyedEvent, ConnectionStateChangedEvent
from aioslsk.network.connection import ServerConnection, ConnectionState, CloseReason
from aioslsk.exceptions import InvalidSessionError
from aioslsk.commands import GetUserStatusCommand

PROPERTY = 'C16'
LEVEL = 'model_checking'
RULE = ("(A) settings combinations (ports x friends x interests x favourites x auto_join x invites x reconnect x shared "
        "directories; pairwise-complete subset quick, full product thorough) x login outcome; (B) {eof, reset, "
        "disconnect, stop} x every boundary of start+login+burst, idle, work pending x reconnect on/off x 60 s; "
        "distinct = distinct (configuration | placement) cases")
ASSUMPTIONS = [
    "scripted server answers Login and AddUser and sends the usual post-login burst (room list, parent parameters, privileged users)",
    "connect to the scripted server is atomic (no fault between SYN and established)",
]

SCRATCH_ROOT = '/dev/shm' if os.path.isdir('/dev/shm') else tempfile.gettempdir()
STATS = UserStats(100, 1, 10, 2)


def vals(msg):
    return tuple(getattr(msg, f.name) for f in dataclasses.fields(msg))


class Rig:
    def __init__(self, cfg: dict, chooser=None):
        self.cfg = cfg
        self.base = tempfile.mkdtemp(prefix='c16-', dir=SCRATCH_ROOT)
        dirs = []
        self.n_files = 0
        self.n_dirs = 0
        for i in range(cfg.get('shares', 0)):
            d = os.path.join(self.base, f'share{i}')
            os.makedirs(os.path.join(d, 'sub'))
            for rel in ('a.mp3', 'sub/b.mp3'):
                with open(os.path.join(d, rel), 'wb') as fh:
                    fh.write(b'x' * 10)
            dirs.append({'path': d, 'share_mode': 'everyone'})
        ports = cfg.get('ports', (60000, 60001))
        st = {
            'network': {'server': {'reconnect': {'auto': bool(cfg.get('reconnect')), 'timeout': 10}},
                        'listening': {'error_mode': 'any'}},
            'shares': {'scan_on_start': True, 'directories': dirs, 'download': os.path.join(self.base, 'dl')},
            'users': {'friends': list(cfg.get('friends', []))},
            'interests': {'liked': list(cfg.get('liked', [])), 'hated': list(cfg.get('hated', []))},
            'rooms': {'auto_join': bool(cfg.get('auto_join', True)), 'private_room_invites': bool(cfg.get('invites', True)),
                      'favorites': list(cfg.get('favorites', []))},
            'debug': {'search_for_parent': True},
        }
        os.makedirs(os.path.join(self.base, 'dl'), exist_ok=True)
        self.cw = ClientWorld(chooser=chooser, horizon=400.0, settings=dict(st, port=ports[0], obfuscated_port=ports[1]))
        cw = self.cw
        self.world = cw.world
        self.client = cw.client
        self.server = cw.server
        self.login_mode = cfg.get('login', 'ok')
        self.server.login_response = self._login
        unknown = set(cfg.get('unknown_users', []))
        self.server.auto[M.AddUser.Request] = lambda srv, msg: srv.send(
            M.AddUser.Response(msg.username, False) if msg.username in unknown
            else M.AddUser.Response(msg.username, True, 2, STATS, 'BE'))
        self.server.auto[M.JoinRoom.Request] = lambda srv, msg: srv.send(
            M.JoinRoom.Response(msg.room, ['me', 'x1'], [2, 2], [STATS, STATS], [0, 0], ['BE', 'BE']))
        self.initialized: list = []
        self.destroyed: list = []
        self.server_states: list = []
        cw.world.keep.append(self)
        self.client.events.register(SessionInitializedEvent, self._on_init)
        self.client.events.register(SessionDestroyedEvent, self._on_destroyed)
        self.client.events.register(ConnectionStateChangedEvent, self._on_state)
        self.viols: list[Violation] = []
        self.sigs: set = set()

    def _login(self, srv, msg):
        self.logins = getattr(self, 'logins', 0) + 1
        relogin = self.cfg.get('relogin')
        if self.logins == 2 and relogin == 'slow':
            return                      # the answer to the re-login is outstanding
        if self.logins == 2 and relogin == 'eof':
            srv.end.close()             # e.g. the same account logged in elsewhere meanwhile
            return
        if self.login_mode == 'ok':
            srv.send(M.Login.Response(success=True, greeting='hi', ip='10.0.0.1', md5hash='x' * 32, privileged=False),
                     M.RoomList.Response(rooms=['r1', 'r9'], rooms_user_count=[3, 4], rooms_private_owned=[],
                                         rooms_private_owned_user_count=[], rooms_private=[], rooms_private_user_count=[],
                                         rooms_private_operated=[]),
                     M.ParentMinSpeed.Response(1), M.ParentSpeedRatio.Response(50), M.WishlistInterval.Response(720),
                     M.PrivilegedUsers.Response(['f1', 'p9']))
        elif self.login_mode == 'rejected':
            srv.send(M.Login.Response(success=False, reason='INVALIDPASS'))
        elif self.login_mode == 'garbled':
            srv.send(M.ParentMinSpeed.Response(1))

    def _on_init(self, ev):
        self.initialized.append((self.world.now(), ev.session))

    def _on_destroyed(self, ev):
        self.destroyed.append((self.world.now(), ev.session))

    def _on_state(self, ev):
        if isinstance(ev.connection, ServerConnection):
            self.server_states.append((self.world.now(), ev.state, ev.close_reason))

    def add(self, clause, detail, sig):
        if sig not in self.sigs:
            self.sigs.add(sig)
            self.viols.append(Violation(clause, detail, signature=sig))

    def frames(self, session: int = -1):
        idx = len(self.server.sessions) - 1 if session == -1 else session
        return [m for _, s, m in self.server.received_t if s == idx]

    def close(self):
        self.cw.close()
        shutil.rmtree(self.base, ignore_errors=True)


# ---- (A) configurations ------------------------------------------------------------------------------------------

def check_advertised(rig: Rig, frames, label):
    cfg = rig.cfg
    client = rig.client

    def of(cls):
        return [vals(m) for m in frames if isinstance(m, cls)]

    def expect_once(cls, want, name):
        got = of(cls)
        if got != [want]:
            rig.add(f'advertised-{name}', f"{label}: {cls.__qualname__} frames {got}, the settings say {want}",
                    f'C16:advertised-{name}')
    ports = cfg.get('ports', (60000, 60001))
    got = of(M.SetListenPort.Request)
    if not got or got[-1][0] != ports[0] or (got[-1][2] or 0) != ports[1] or len(got) != 1:
        rig.add('advertised-ports', f"{label}: SetListenPort frames {got}, listening ports are {ports}", 'C16:advertised-ports')
    got = of(M.SetStatus.Request)
    if got != [(2,)]:
        rig.add('advertised-status', f"{label}: SetStatus frames {got}", 'C16:advertised-status')
    folders, files = client.shares.get_stats()
    want_files = 2 * cfg.get('shares', 0)
    got = of(M.SharedFoldersFiles.Request)
    if files != want_files:
        rig.add('harness-shares', f"{label}: index has {files} files, expected {want_files}", 'C16:harness-shares')
    if not got or got[-1] != (folders, files):
        rig.add('advertised-shares', f"{label}: SharedFoldersFiles frames {got}, the index holds {(folders, files)}",
                'C16:advertised-shares')
    tracked = [v[0] for v in of(M.AddUser.Request)]
    for f in cfg.get('friends', []):
        if tracked.count(f) != 1:
            rig.add('advertised-friends', f"{label}: friend {f!r} was tracked {tracked.count(f)} times ({tracked})",
                    'C16:advertised-friends')
    extra = set(tracked) - set(cfg.get('friends', [])) - {'me'} - set(cfg.get('also_tracked', []))
    if extra:
        rig.add('advertised-friends', f"{label}: AddUser for {sorted(extra)} who are no friends", 'C16:advertised-nonfriend')
    for cls, key, name in ((M.AddInterest.Request, 'liked', 'interest'), (M.AddHatedInterest.Request, 'hated', 'hated')):
        got = sorted(v[0] for v in of(cls))
        if got != sorted(cfg.get(key, [])):
            rig.add(f'advertised-{name}', f"{label}: {cls.__qualname__} for {got}, the settings list {sorted(cfg.get(key, []))}",
                    f'C16:advertised-{name}')
    expect_once(M.TogglePrivateRoomInvites.Request, (bool(cfg.get('invites', True)),), 'invites')
    got = sorted(v[0] for v in of(M.JoinRoom.Request))
    want = sorted(cfg.get('favorites', [])) if cfg.get('auto_join', True) else []
    if got != want:
        rig.add('advertised-rooms', f"{label}: JoinRoom sent for {got}; auto_join={cfg.get('auto_join', True)}, "
                f"favourites {sorted(cfg.get('favorites', []))}", 'C16:advertised-rooms:' + ('missing' if want else 'unwanted'))
    for cls, want, name in ((M.BranchLevel.Request, (0,), 'level'), (M.BranchRoot.Request, ('me',), 'root'),
                            (M.ToggleParentSearch.Request, (True,), 'parent-search')):
        got = of(cls)
        if not got or got[-1] != want:
            rig.add('advertised-branch', f"{label}: {cls.__qualname__} frames {got}, expected last {want}",
                    f'C16:advertised-branch:{name}')


def run_config(cfg: dict) -> dict:
    ERRORS.records.clear()
    rig = Rig(cfg)
    try:
        client = rig.client
        # commands are refused without a session
        res = {}

        async def early_cmd():
            try:
                await client.execute(GetUserStatusCommand('f1'))
            except InvalidSessionError:
                res['early'] = 'refused'
            except Exception as exc:   # noqa
                res['early'] = repr(exc)
            else:
                res['early'] = 'accepted'

        async def boot():
            await client.start()
            await early_cmd()
            await client.login()
        slot = rig.world.op('boot', 'start+login', boot, record=False)
        rig.world.run_default_for(5.0)
        label = str(cfg)
        if res.get('early') != 'refused':
            rig.add('command-without-session', f"{label}: execute() before login -> {res.get('early')}",
                    'C16:command-without-session')
        frames = rig.frames()
        if rig.login_mode == 'ok':
            if slot.get('exc'):
                rig.add('login-failed', f"{label}: {slot.get('exc_obj')!r}", 'C16:login-failed')
            elif client.session is None or len(rig.initialized) != 1:
                rig.add('no-session', f"{label}: session {client.session}, {len(rig.initialized)} init events", 'C16:no-session')
            else:
                check_advertised(rig, frames, label)
        else:
            want_exc = 'AuthenticationError' if rig.login_mode == 'rejected' else 'AioSlskException'
            if slot.get('exc') != want_exc:
                rig.add('login-outcome', f"{label}: login() -> {slot.get('exc')} (state {slot['state']})", 'C16:login-outcome')
            if client.session is not None or rig.initialized:
                rig.add('session-after-failed-login', label, 'C16:session-after-failed-login')
            adv = [m for m in frames if not isinstance(m, (M.Login.Request, M.Ping.Request))]
            if adv:
                rig.add('advertised-without-session', f"{label}: {[type(m).__qualname__ for m in adv]}",
                        'C16:advertised-without-session')
            res.clear()
            rig.world.op('boot', 'cmd', early_cmd, record=False)
            rig.world.run_default_for(1.0)
            if res.get('early') != 'refused':
                rig.add('command-without-session', f"{label}: execute() after a failed login -> {res.get('early')}",
                        'C16:command-without-session')
        unret = [u for u in rig.world.unretrieved_task_exceptions()]
        if unret:
            rig.add('task-exception', unret[0], 'C16:task-exception:' + unret[0].split(':', 1)[1].strip()[:40])
        return {'violations': list(rig.viols), 'transitions': rig.world.loop.batches,
                'obs': tuple(type(m).__qualname__ for m in frames)}
    finally:
        rig.close()


DIMS = {
    'ports': [(60000, 60001), (60000, 0), (0, 0), (0, 60001)],
    'friends': [[], ['f1'], ['f1', 'f2']],
    'interests': [([], []), (['a'], []), (['a', 'b'], ['c'])],
    'favorites': [[], ['r1', 'r2']],
    'auto_join': [True, False],
    'invites': [True, False],
    'reconnect': [False, True],
    'shares': [0, 1, 2],
}


def _cfg(choice: dict) -> dict:
    c = dict(choice)
    liked, hated = c.pop('interests')
    c['liked'], c['hated'] = liked, hated
    return c


def configurations(tier):
    names = list(DIMS)
    out = []
    if tier != 'quick':
        for combo in itertools.product(*[DIMS[n] for n in names]):
            out.append(_cfg(dict(zip(names, combo))))
    else:
        # every pair of values of every two dimensions, others at their first value
        seen = set()
        for a, b in itertools.combinations(names, 2):
            for va, vb in itertools.product(DIMS[a], DIMS[b]):
                ch = {n: DIMS[n][0] for n in names}
                ch[a], ch[b] = va, vb
                k = repr(ch)
                if k not in seen:
                    seen.add(k)
                    out.append(_cfg(ch))
    base = _cfg({n: DIMS[n][-1] for n in names})
    for mode in ('rejected', 'garbled'):
        out.append(dict(base, login=mode))
    return out


# ---- (B) loss and stop placement ------------------------------------------------------------------------------------

BASE_B = {'ports': (60000, 60001), 'friends': ['f1', 'f2'], 'liked': ['a'], 'hated': [], 'favorites': ['r1'],
          'auto_join': True, 'invites': True, 'shares': 1, 'unknown_users': ['f2']}


def run_placement(params: dict) -> dict:
    ERRORS.records.clear()
    cfg = dict(BASE_B, reconnect=params['reconnect'], also_tracked=['ghost', 'f3'], relogin=params.get('relogin'))
    rig = Rig(cfg)
    world, client, server, net = rig.world, rig.client, rig.server, rig.cw.net
    action, point = params['action'], params['point']
    label = f"{action} at {point}, reconnect={'on' if params['reconnect'] else 'off'}" + (
        f", re-login {params['relogin']}" if params.get('relogin') else '') + (
        f", server unreachable for {params['down']} s" if params.get('down') else '')
    try:
        world.op('boot', 'start', lambda: client.start(), record=False)
        world.run_default_until_idle()
        slot = None
        if point[0] != 'connected':
            slot = world.op('boot', 'login', lambda: client.login(), record=False)
        if point[0] == 'login':
            k0 = world.boundaries
            world.deviations = False
            world.run(until=lambda: world.boundaries - k0 >= point[1])
            if slot['state'] == 'done' and not world.loop.has_ready() and not world.releasable():
                return {'violations': [], 'transitions': world.loop.batches, 'obs': None, 'skipped': True}
        elif point[0] in ('idle', 'work', 'lost'):
            world.run_default_for(3.0)
            if point[0] == 'lost':
                # the server connection was reset before (the watchdog may be waiting to reconnect)
                server.end.reset()
                world.run_default_for(point[1])
            if point[0] == 'work':
                # background work: hanging potential-parent connects, a download that cannot be queued, a search
                net.routes[('10.0.7.1', 7001)] = 'hang'
                net.routes[('10.0.7.2', 7002)] = 'hang'
                server.send(M.PotentialParents.Response(
                    [M.PotentialParent('pp1', '10.0.7.1', 7001), M.PotentialParent('pp2', '10.0.7.2', 7002)]))

                async def work():
                    await client.transfers.download('ghost', '@@abcde\\x\\f.mp3')
                    await client.searches.search('some thing')
                    await client.users.track_user('f3')
                world.op('boot', 'work', work, record=False)
                world.run_default_for(point[1])
        connected_before = any(s == ConnectionState.CONNECTED for _, s, _ in rig.server_states)
        n_sessions_before = len(server.sessions)
        n_init_before = len(rig.initialized)
        t_inject = world.now()
        stop_slot = None
        if action in ('eof', 'reset'):
            if server.end is None or server.end.closed:
                return {'violations': [], 'transitions': world.loop.batches, 'obs': None, 'skipped': True}
            (server.end.close if action == 'eof' else server.end.reset)()
        elif action == 'disconnect':
            world.op('user', 'disconnect', lambda: client.network.disconnect_server(), record=False)
        elif action == 'stop':
            stop_slot = world.op('user', 'stop', lambda: client.stop(), record=False)
        elif action == 'none':
            pass
        n_connects_at_inject = len(net.connect_log)
        down = params.get('down', 0)
        if down:
            # the server cannot be reached for a while after the loss (the first reconnect attempt fails)
            addr = (server.ip, server.port)
            listener = net.listeners.pop(addr)
            world.run_default_for(float(down))
            net.listeners[addr] = listener
            world.run_default_for(60.0 - down)
        else:
            world.run_default_for(60.0)

        # -- sessions are destroyed exactly once ------------------------------------------------------------------
        ended = [s for _, s in rig.destroyed]
        if len(set(map(id, ended))) != len(ended):
            rig.add('destroyed-twice', f"{label}: {len(ended)} SessionDestroyedEvent for {len(set(map(id, ended)))} sessions",
                    'C16:destroyed-twice')
        live = 1 if client.session is not None else 0
        if len(rig.initialized) - live != len(ended):
            rig.add('session-not-destroyed', f"{label}: {len(rig.initialized)} sessions initialised, {len(ended)} destroyed, "
                    f"client.session={'set' if live else 'None'}", 'C16:session-not-destroyed')
        state = client.network.server_connection.state
        if client.session is not None and state != ConnectionState.CONNECTED:
            rig.add('session-without-connection', f"{label}: session present while the server connection is {state.name}",
                    'C16:session-without-connection')
        # -- reconnect ---------------------------------------------------------------------------------------
        new_sessions = len(server.sessions) - n_sessions_before
        reasons = [r for _, s, r in rig.server_states if s == ConnectionState.CLOSED]
        # what the library was told about the loss decides (a server EOF that is only noticed through a failing
        # write is reported as an error, not as EOF)
        after = [(s, r) for t, s, r in rig.server_states if t >= t_inject]
        first_closed = next((r for s, r in after if s == ConnectionState.CLOSED), None)
        want_reconnect = (params['reconnect'] and connected_before and first_closed is not None
                          and first_closed not in (CloseReason.REQUESTED, CloseReason.EOF) and action in ('eof', 'reset'))
        if want_reconnect:
            if new_sessions < 1:
                rig.add('no-reconnect', f"{label}: the server connection was lost ({reasons}) and no new connection was "
                        f"made within 60 s", 'C16:no-reconnect')
            elif client.session is None or len(rig.initialized) <= n_init_before:
                rig.add('no-relogin', f"{label}: reconnected but no new session ({len(rig.initialized)} init events)",
                        'C16:no-relogin')
            else:
                check_advertised(rig, rig.frames(), label + ' (after reconnect)')
        elif action == 'none' and params.get('relogin') == 'eof':
            # the reconnect after the earlier reset is wanted; the EOF that answers its login must end it there
            if len(server.sessions) != 2 or client.session is not None:
                rig.add('unwanted-reconnect', f"{label}: {len(server.sessions)} server connections in total (expected the "
                        f"first and one reconnect), session {'set' if client.session else 'None'}; close reasons {reasons}",
                        'C16:unwanted-reconnect:after-eof-on-relogin')
        elif new_sessions:
            rig.add('unwanted-reconnect', f"{label}: {new_sessions} new server connection(s) were made (close reasons "
                    f"{reasons})", f'C16:unwanted-reconnect:{action}')
        # -- server derived state is cleared while there is no server -----------------------------------------
        if state == ConnectionState.CLOSED and connected_before:
            dn = client.distributed_network
            left = {}
            if client.rooms.rooms:
                left['rooms'] = sorted(client.rooms.rooms)
            if client.users.privileged_users:
                left['privileged'] = sorted(client.users.privileged_users)
            params_left = {n: getattr(dn, n) for n in ('parent_min_speed', 'parent_speed_ratio') if getattr(dn, n) is not None}
            if params_left:
                left['distributed'] = params_left
            stale = {n: u.status.name for n, u in client.users.users.items() if u.status.name not in ('UNKNOWN', 'OFFLINE') and n != 'me'}
            if stale:
                left['user-status'] = stale
            from aioslsk.user.model import TrackingState
            tr = {f: client.users.get_tracking_state(f).name for f in ('f1', 'f2', 'f3')
                  if client.users.get_tracking_state(f) == TrackingState.TRACKED}
            if tr:
                left['tracked'] = tr
            if left:
                rig.add('state-not-cleared', f"{label}: after the loss {left}", 'C16:state-not-cleared:' + ','.join(sorted(left)))
        # -- stop is final ------------------------------------------------------------------------------------
        if stop_slot is not None:
            if stop_slot['state'] != 'done':
                rig.add('stop-hangs', f"{label}: stop() has not returned after 60 s ({stop_slot['state']})", 'C16:stop-hangs')
            else:
                if stop_slot.get('exc'):
                    rig.add('stop-raises', f"{label}: {stop_slot.get('exc_obj')!r}", 'C16:stop-raises:' + stop_slot['exc'])
                open_conns = [c.label for c in net.conns if c.ends[0] is not None and not c.side_closed[_lib_side(c)]]
                if open_conns:
                    rig.add('open-after-stop', f"{label}: connections {open_conns} still open", 'C16:open-after-stop')
                listening = [a for a, l in net.listeners.items() if getattr(l, '_serving', False)]
                if listening:
                    rig.add('listening-after-stop', f"{label}: still listening on {listening}", 'C16:listening-after-stop')
                if len(net.connect_log) > rig_connects_at(stop_slot, net):
                    rig.add('connect-after-stop', f"{label}: connection attempts after stop() returned: "
                            f"{net.connect_log[rig_connects_at(stop_slot, net):]}", 'C16:connect-after-stop')
                tasks = [t.get_name() for t in world.live_tasks() if not t.get_name().startswith('driver-')]
                if tasks:
                    rig.add('tasks-after-stop', f"{label}: tasks still pending: {sorted(tasks)[:6]}",
                            'C16:tasks-after-stop:' + _task_kind(sorted(tasks)[0]))
        unret = [u for u in world.unretrieved_task_exceptions() if 'queue-message-task' not in u]
        if unret:
            rig.add('task-exception', f"{label}: {unret[0]}", 'C16:task-exception:' + unret[0].split(':', 1)[1].strip()[:40])
        return {'violations': list(rig.viols), 'transitions': world.loop.batches,
                'obs': (state.name, client.session is not None, new_sessions, tuple(r.name for r in reasons))}
    finally:
        rig.close()


def _lib_side(conn):
    # the library's end is the transport (not an ActorEndpoint)
    from ..simnet import ActorEndpoint
    return 0 if not isinstance(conn.ends[0], ActorEndpoint) else 1


def rig_connects_at(slot, net):
    """number of connect attempts logged up to the moment stop() returned"""
    t = slot['t_ret']
    return sum(1 for c in net.connect_log if c[0] <= t)


def _task_kind(name: str) -> str:
    return ''.join(ch for ch in name if not ch.isdigit()).strip('-')[:30]


def placements(tier):
    out = []
    points = [('connected', 0)] + [('login', k) for k in range(0, 60)] + [('idle', 0), ('lost', 0.0), ('lost', 5.0), ('lost', 9.99), ('lost', 10.0), ('work', 0.0), ('work', 0.5), ('work', 5.0), ('work', 15.0)]
    for point in points:
        for action in ('eof', 'reset', 'disconnect', 'stop'):
            for rec in (False, True):
                out.append({'point': list(point), 'action': action, 'reconnect': rec})
    # the automatic re-login is in progress (answer outstanding) or answered by an EOF
    for relogin in ('slow', 'eof'):
        for action in (('stop', 'disconnect', 'eof', 'reset') if relogin == 'slow' else ('none',)):
            for dt in (10.0, 10.5, 12.0):
                out.append({'point': ['lost', dt], 'action': action, 'reconnect': True, 'relogin': relogin})
    for down in (5, 15, 25):
        for rec in (False, True):
            for point in (('idle', 0), ('work', 5.0)):
                out.append({'point': list(point), 'action': 'reset', 'reconnect': rec, 'down': down})
    return out


def scenarios(tier: str):
    out = []
    cfgs = configurations(tier)
    for i in range(0, len(cfgs), 12):
        out.append({'kind': 'config', 'cfgs': cfgs[i:i + 12]})
    ps = placements(tier)
    for i in range(0, len(ps), 16):
        out.append({'kind': 'placement', 'cases': ps[i:i + 16]})
    return out


def run_scenario(params: dict, tier: str) -> dict:
    viols, sigs = [], set()
    n = 0
    outcomes = set()
    transitions = 0
    sample = None
    items = params['cfgs'] if params['kind'] == 'config' else params['cases']
    for item in items:
        if params['kind'] == 'config':
            out = run_config(item)
        else:
            out = run_placement(dict(item, point=tuple(item['point'])))
        if out.get('skipped'):
            continue
        n += 1
        transitions += out['transitions']
        outcomes.add(repr((sorted(item.items(), key=str), out.get('obs'))))
        if sample is None:
            sample = {'case': item, 'outcome': repr(out.get('obs'))[:300]}
        for v in out['violations']:
            if v.signature not in sigs:
                sigs.add(v.signature)
                viols.append({'clause': v.clause, 'detail': v.detail, 'signature': v.signature, 'choices': [],
                              'deviations': [], 'case': item})
    return {'executions': n, 'violations': viols, 'states': len(outcomes), 'transitions': transitions,
            'outcomes': [str(hash(o)) for o in outcomes], 'capped': False, 'samples': [sample] if sample else []}


def replay(params: dict, choices: list, tier: str = 'quick') -> dict:
    return {'violations': run_scenario(params, tier)['violations']}
