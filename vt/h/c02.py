"""C02 — malformed or hostile bytes never crash a reader or desynchronise the stream.

A full ``SoulSeekClient`` (every manager's handlers attached) logged in against
the scripted server; hostile streams are fed to the server connection, to the
first frame of an accepted connection, and to established peer (plain /
obfuscated) and distributed connections.  Enumerated: every single mutation of
the canonical valid frame of every message class from a finite mutation
alphabet, short frame sequences over a hostile alphabet, and all one/two-cut
segmentations of representative streams.
"""
from __future__ import annotations
import itertools
import struct
import zlib

from ..common import ERRORS
from ..world import Violation
from ..clientworld import ClientWorld
from ..actors import enc
from ..ref import wire
from . import c01

from aioslsk.network.connection import ConnectionState, CloseReason, PeerConnection, ServerConnection
from aioslsk.protocol import messages as M

PROPERTY = 'C02'
LEVEL = 'fault_enumeration'
RULE = ("streams = [valid, valid, sentinel] and [mutated, sentinel] for every single mutation (every truncation, every "
        "length/count prefix -> {0,n+1,0x7fffffff,0xffffffff}, invalid utf-8/cp1252 bytes in every string, corrupt / "
        "truncated zlib, unknown code, empty frame) of every message class, sequences over a hostile alphabet, and "
        "all cut placements; distinct_nontrivial = distinct hostile streams fed")
ASSUMPTIONS = [
    "mutation alphabet is finite (not all byte strings); outer length prefixes stay truthful except in the "
    "'stream ends mid-frame' cases",
    "memory exhaustion by huge declared lengths / zlib bombs is not explored",
    "a valid frame after which the library itself closes the connection on purpose (REQUESTED) ends the stream",
]

LAYOUT = c01.LAYOUT
SENTINELS = {
    'server': lambda n: M.AdminMessage.Response(f'sentinel-{n}'),
    'peer': lambda n: M.PeerPlaceInQueueReply.Request(f'sentinel-{n}', 1),
    'dist': lambda n: M.DistributedChildDepth.Request(1000 + n),
}
BAD_BYTES = [0xff, 0xfe, 0x81, 0x8d, 0x8f, 0x90, 0x9d]


def target_classes(target: str):
    out = []
    for key, c in sorted(LAYOUT.classes.items()):
        if target == 'server' and c['family'] == 'server' and c['kind'] == 'Response':
            out.append(key)
        elif target in ('peer', 'peer-obf') and c['family'] == 'peer':
            out.append(key)
        elif target == 'dist' and c['family'] == 'distributed':
            out.append(key)
        elif target == 'accept' and c['family'] == 'peer_init':
            out.append(key)
    return out


def canonical(key: str):
    values = next(iter(c01.values_for(key, 'quick')))
    return values


def mutations(key: str, tier: str):
    """yields (label, frame bytes) — frames keep a truthful outer length prefix"""
    values = canonical(key)
    body, marks = wire.encode_body_marked(LAYOUT, key, values)
    comp = LAYOUT.classes[key]['compressed']
    for n in range(len(body)):
        yield f'trunc{n}', wire.frame(LAYOUT, key, body[:n])
    for kind, off, n in marks:
        if kind in ('len', 'count'):
            for lie in (0, n + 1, 0x7fffffff, 0xffffffff):
                if lie != n:
                    yield f'{kind}@{off}={lie:#x}', wire.frame(LAYOUT, key, body[:off] + struct.pack('<I', lie) + body[off + 4:])
        elif kind == 'str' and n > 0:
            for b in BAD_BYTES:
                yield f'str@{off}={b:#x}', wire.frame(LAYOUT, key, body[:off] + bytes([b]) + body[off + 1:])
    if comp:
        z = zlib.compress(body)
        for label, zbody in (('zlib-trunc', z[:len(z) // 2]), ('zlib-flip', z[:3] + bytes([z[3] ^ 0xff]) + z[4:]),
                             ('zlib-garbage', b'not zlib at all'), ('zlib-empty', b'')):
            mid = struct.pack('<I', LAYOUT.classes[key]['message_id'])
            yield label, struct.pack('<I', len(mid) + len(zbody)) + mid + zbody
    if tier == 'thorough' and len(body) <= 96:
        for i in range(len(body)):
            yield f'xor@{i}', wire.frame(LAYOUT, key, body[:i] + bytes([body[i] ^ 0x80]) + body[i + 1:])
    # trailing garbage after a complete body
    yield 'trailing', wire.frame(LAYOUT, key, body + b'\xde\xad\xbe\xef')


def generic_hostile(target: str):
    width = 1 if target in ('dist', 'accept') else 4
    out = [('empty-frame', b'\x00\x00\x00\x00')]
    if width == 4:
        out.append(('short-id', b'\x02\x00\x00\x00\x01\x00'))
        out.append(('unknown-code', struct.pack('<II', 4, 0xEEEE)))
        out.append(('unknown-code-body', struct.pack('<II', 12, 0xEEEE) + b'\x01' * 8))
    else:
        out.append(('unknown-code', struct.pack('<IB', 1, 0xEE)))
        out.append(('unknown-code-body', struct.pack('<IB', 9, 0xEE) + b'\x01' * 8))
    return out


class Rig:
    def __init__(self):
        self.cw = ClientWorld(horizon=30.0, settings={'shares': {'scan_on_start': False}})
        self.cw.start()
        self.world = self.cw.world
        self.tap = self.cw.tap
        self.n_sent = 0
        self.peer_n = 0

    def server_conn(self):
        return self.cw.client.network.server_connection, self.cw.server.end, False

    def new_conn(self, target: str, first=None):
        """returns (library connection or None, actor-side sender)"""
        self.peer_n += 1
        name = f'peer{self.peer_n}'
        peer = self.cw.peer(name, f'10.1.{self.peer_n // 250}.{self.peer_n % 250 + 1}', listen=False)
        obf = target == 'peer-obf'
        port = 60001 if obf else 60000
        if target == 'accept':
            pc = peer.connect(port, obfuscated=False)
            self.cw.idle()
            return self._lib_conn(pc), pc, False
        typ = 'D' if target == 'dist' else 'P'
        pc = peer.connect_init(port, typ, obfuscated=obf)
        self.cw.idle()
        return self._lib_conn(pc), pc, obf and typ == 'P'

    def _lib_conn(self, pc):
        for c in self.cw.client.network.peer_connections:
            w = c._writer
            if w is not None and getattr(w.transport, 'conn', None) is pc.end.conn:
                return c
        for _, c, _, _ in reversed(self.tap.states):
            if isinstance(c, PeerConnection):
                return c
        return None

    def close(self):
        self.cw.close()


def feed_and_check(rig: Rig, target: str, frames: list, label: str, cuts=None, coalesce=True,
                   sigs=None, viols=None):
    """frames: list of (bytes, expected object or None (=hostile), is_sentinel)"""
    def add(clause, detail, sig):
        if sig not in sigs:
            sigs.add(sig)
            viols.append(Violation(clause, detail, signature=sig))
    world = rig.world
    if target == 'server':
        conn, sender, obf = rig.server_conn()
        send = sender.send
        if conn.state != ConnectionState.CONNECTED:
            return 'server-down'
    else:
        conn, pc, obf = rig.new_conn(target)
        send = pc.end.send
        if conn is None:
            add('no-connection', f"{label}: accepted connection not found", 'C02:harness-no-connection')
            return 'noconn'
    start_seq = rig.tap.seq
    before_tasks = len(world.loop.all_tasks_created)
    before_loop_errors = len(world.loop.exc_contexts)
    ERRORS.records.clear()
    stream = b''.join(enc(f[0], obf) for f in frames)
    if cuts is None:
        chunks = [stream] if coalesce else [enc(f[0], obf) for f in frames]
    else:
        pts = [0] + sorted(cuts) + [len(stream)]
        chunks = [stream[a:b] for a, b in zip(pts, pts[1:]) if b > a]
    for chunk in chunks:
        send(chunk)
        world.run_default_until_idle()
    # ---- oracle ----------------------------------------------------------------------------------
    got = [m for seq, c, m in rig.tap.messages if seq > start_seq and c is conn]
    states = [(s, r) for seq, c, s, r in rig.tap.states if seq > start_seq and c is conn]
    closed = [r for s, r in states if s == ConnectionState.CLOSED]
    reader = conn._reader_task
    expected = [f[1] for f in frames if f[1] is not None]
    first_frame_bad = target == 'accept' and frames and frames[0][1] is None
    if closed:
        reason = closed[0]
        if first_frame_bad:
            pass          # a bad first frame closes that connection (only) — checked by the caller
        elif reason == CloseReason.REQUESTED:
            pass          # the library ended the conversation on purpose after a frame it understood
        else:
            add('closed-by-hostile-frame', f"{label} on {target}: connection closed with {reason.name}",
                f'C02:closed:{target}:{reason.name}:{label.split(":")[0]}')
    else:
        if target == 'accept':
            # init messages are consumed by the accept handler (no message event); a first frame the init
            # parser rejects must have closed the connection
            try:
                M.PeerInitializationMessage.deserialize_request(frames[0][0])
                parses = True
            except Exception:
                parses = False
            if not parses:
                add('bad-first-frame-kept', f"{label}: connection still open after an undecodable first frame",
                    f'C02:bad-first-frame-kept:{label.split(":")[0]}')
        else:
            if reader is None or reader.done():
                add('reader-stopped', f"{label} on {target}: reader task ended, connection state {conn.state.name}",
                    f'C02:reader-stopped:{target}:{label.split(":")[0]}')
            # valid frames: each once, in order; the sentinel exactly once and last
            it = iter(got)
            missing = None
            for want in expected:
                for have in it:
                    if have == want:
                        break
                else:
                    missing = want
                    break
            if missing is not None:
                add('valid-frame-lost', f"{label} on {target}: {missing!r} not delivered (got {got!r})"[:600],
                    f'C02:valid-frame-lost:{target}:{label.split(":")[0]}')
            sent = [f[1] for f in frames if f[2]]
            for s in sent:
                n = sum(1 for g in got if g == s)
                if n != 1:
                    add('sentinel-count', f"{label} on {target}: sentinel delivered {n} times (got {got!r})"[:600],
                        f'C02:sentinel-count:{target}:{label.split(":")[0]}:{n}')
                elif got and s is sent[-1] and got[-1] != s:
                    add('sentinel-not-last', f"{label} on {target}: {got!r}"[:400],
                        f'C02:sentinel-not-last:{target}:{label.split(":")[0]}')
            if len(got) > len(frames):
                add('extra-messages', f"{label} on {target}: {len(got)} messages from {len(frames)} frames",
                    f'C02:extra-messages:{target}:{label.split(":")[0]}')
    for t in world.loop.all_tasks_created[before_tasks:]:
        if t.done() and not t.cancelled() and getattr(t, '_log_traceback', False):
            add('task-exception', f"{label} on {target}: {t.get_name()}: {t.exception()!r}",
                f'C02:task-exception:{target}:{type(t.exception()).__name__}')
            t._log_traceback = False
    for ctx in world.loop.exc_contexts[before_loop_errors:]:
        add('loop-error', f"{label} on {target}: {ctx.get('message')}: {ctx.get('exception')!r}",
            f"C02:loop-error:{target}:{type(ctx.get('exception')).__name__}")
    if reader is not None and reader.done() and not reader.cancelled() and reader.exception() is not None:
        add('reader-crashed', f"{label} on {target}: {reader.exception()!r}",
            f'C02:reader-crashed:{target}:{type(reader.exception()).__name__}')
    if target != 'server' and not closed:
        # done with this connection: the peer hangs up (keeps the number of children / connections bounded)
        pc.close()
        world.run_default_until_idle()
    return 'closed' if closed else 'open'


def lib_obj(key, frame_bytes):
    cls = c01.live_classes()[key][1]
    return cls.deserialize(0, frame_bytes)


def run_class_batch(target: str, keys: list, tier: str) -> dict:
    viols, sigs = [], set()
    rig = Rig()
    n = 0
    streams = set()
    sample = None
    other = None
    try:
        base_target = 'peer' if target == 'peer-obf' else target
        if target == 'accept':
            # an innocent bystander connection that must survive everything
            other_conn, other_pc, _ = rig.new_conn('peer')
            other = (other_conn, other_pc)
        for key in keys:
            values = canonical(key)
            valid = wire.encode_message(LAYOUT, key, values)
            try:
                obj = lib_obj(key, valid)
            except Exception as exc:
                viols.append(Violation('valid-undecodable', f"{key}: {exc!r}", signature=f'C02:valid-undecodable:{key}'))
                continue
            cases = []
            if target != 'accept':
                s = SENTINELS[base_target](rig.n_sent)
                rig.n_sent += 1
                cases.append((f'{key}:valid-twice', [(valid, obj, False), (valid, obj, False), (s.serialize(), s, True)]))
            else:
                cases.append((f'{key}:valid-first', [(valid, obj, False)]))
            for mlabel, fb in itertools.chain(mutations(key, tier), generic_hostile(target)):
                if target != 'accept':
                    s = SENTINELS[base_target](rig.n_sent)
                    rig.n_sent += 1
                    cases.append((f'{key}:{mlabel}', [(fb, None, False), (s.serialize(), s, True)]))
                else:
                    cases.append((f'{key}:{mlabel}', [(fb, None, False)]))
            for label, frames in cases:
                if target == 'server' and rig.cw.client.network.server_connection.state != ConnectionState.CONNECTED:
                    rig.close()
                    rig = Rig()
                n += 1
                streams.add(hash(tuple(f[0] for f in frames)))
                feed_and_check(rig, target, frames, label, sigs=sigs, viols=viols)
                if sample is None:
                    sample = {'target': target, 'stream': label, 'hex': frames[0][0].hex()[:80]}
                if target == 'accept' and other is not None:
                    # the bystander and the server connection stay usable
                    if other[0].state != ConnectionState.CONNECTED or \
                            rig.cw.client.network.server_connection.state != ConnectionState.CONNECTED:
                        viols.append(Violation(
                            'bystander-closed', f"{label}: another connection was closed",
                            signature='C02:bystander-closed'))
                        other = None
        if other is not None:
            s = SENTINELS['peer'](99999)
            start = rig.tap.seq
            other[1].end.send(s.serialize())
            rig.world.run_default_until_idle()
            if not any(m == s for seq, c, m in rig.tap.messages if seq > start):
                viols.append(Violation('bystander-dead', 'the bystander connection no longer delivers messages',
                                       signature='C02:bystander-dead'))
    finally:
        rig.close()
    return {'executions': n, 'violations': c01._vd(viols), 'states': 0, 'transitions': 0,
            'outcomes': [f's{s}' for s in streams], 'capped': False, 'samples': [sample]}


# --- sequences over a hostile alphabet, and segmentation -----------------------------------------------------------

def alphabet(target: str):
    base_target = 'peer' if target == 'peer-obf' else target
    if base_target == 'server':
        a, b = 'GetUserStatus.Response', 'RoomTickerAdded.Response'
    elif base_target == 'peer':
        a, b = 'PeerPlaceInQueueRequest.Request', 'PeerUploadFailed.Request'
    else:
        a, b = 'DistributedChildDepth.Request', 'DistributedChildDepth.Request'
    va = wire.encode_message(LAYOUT, a, canonical(a))
    vb = wire.encode_message(LAYOUT, b, canonical(b))
    syms = {'A': (va, lib_obj(a, va)), 'B': (vb, lib_obj(b, vb))}
    body, marks = wire.encode_body_marked(LAYOUT, a, canonical(a))
    syms['T'] = (wire.frame(LAYOUT, a, body[:max(0, len(body) - 2)]), None)      # truncated
    lens = [m for m in marks if m[0] in ('len', 'count')]
    if lens:
        off = lens[0][1]
        syms['L'] = (wire.frame(LAYOUT, a, body[:off] + b'\xff\xff\xff\x7f' + body[off + 4:]), None)
    strs = [m for m in marks if m[0] == 'str' and m[2] > 0]
    if strs:
        off = strs[0][1]
        syms['U'] = (wire.frame(LAYOUT, a, body[:off] + b'\x81' + body[off + 1:]), None)
    for label, fb in generic_hostile(target):
        syms[{'empty-frame': 'E', 'unknown-code': 'K', 'unknown-code-body': 'Q', 'short-id': 'H'}[label]] = (fb, None)
    return syms


def run_sequences(target: str, maxlen: int, first_symbols) -> dict:
    viols, sigs = [], set()
    rig = Rig()
    n = 0
    streams = set()
    syms = alphabet(target)
    base_target = 'peer' if target == 'peer-obf' else target
    try:
        for length in range(1, maxlen + 1):
            for seq in itertools.product(sorted(syms), repeat=length):
                if seq[0] not in first_symbols:
                    continue
                s = SENTINELS[base_target](rig.n_sent)
                rig.n_sent += 1
                frames = [(syms[c][0], syms[c][1], False) for c in seq] + [(s.serialize(), s, True)]
                for coalesce in (True, False):
                    if target == 'server' and rig.cw.client.network.server_connection.state != ConnectionState.CONNECTED:
                        rig.close()
                        rig = Rig()
                    n += 1
                    streams.add(hash((seq, coalesce)))
                    feed_and_check(rig, target, frames, 'seq-' + ''.join(seq) + (':coalesced' if coalesce else ':single'),
                                   coalesce=coalesce, sigs=sigs, viols=viols)
    finally:
        rig.close()
    return {'executions': n, 'violations': c01._vd(viols), 'states': 0, 'transitions': 0,
            'outcomes': [f'q{s}' for s in streams], 'capped': False,
            'samples': [{'target': target, 'alphabet': sorted(syms), 'maxlen': maxlen}]}


def run_segmentation(target: str, seq: str, two_cuts: bool, part: int, parts: int) -> dict:
    viols, sigs = [], set()
    rig = Rig()
    n = 0
    streams = set()
    syms = alphabet(target)
    base_target = 'peer' if target == 'peer-obf' else target
    obf = target == 'peer-obf'
    try:
        probe = b''.join(enc(syms[c][0], False) for c in seq) + SENTINELS[base_target](0).serialize()
        total = len(probe) + (4 * (len(seq) + 1) if obf else 0)
        cut_sets = [(c,) for c in range(1, total)]
        if two_cuts:
            cut_sets += [(a, b) for a in range(1, total) for b in range(a + 1, total)]
        cut_sets.append(tuple(range(1, total)))        # one byte at a time
        for i, cuts in enumerate(cut_sets):
            if i % parts != part:
                continue
            s = SENTINELS[base_target](rig.n_sent)
            rig.n_sent += 1
            frames = [(syms[c][0], syms[c][1], False) for c in seq] + [(s.serialize(), s, True)]
            if target == 'server' and rig.cw.client.network.server_connection.state != ConnectionState.CONNECTED:
                rig.close()
                rig = Rig()
            n += 1
            streams.add(hash((seq, cuts)))
            feed_and_check(rig, target, frames, f'cut-{seq}:{len(cuts)}cuts', cuts=list(cuts), sigs=sigs, viols=viols)
    finally:
        rig.close()
    return {'executions': n, 'violations': c01._vd(viols), 'states': 0, 'transitions': 0,
            'outcomes': [f'g{s}' for s in streams], 'capped': False,
            'samples': [{'target': target, 'stream': seq, 'cuts': 'all placements'}]}


BIG = {
    'server': lambda n: M.AdminMessage.Response('B' * n),
    'peer': lambda n: M.PeerPlaceInQueueReply.Request('B' * n, 7),
    'dist': lambda n: M.DistributedSearchRequest.Request(0x31, 'u', 5, 'q' * n),
}


def run_large_frames(target: str) -> dict:
    """frames far larger than any read chunk (and one hostile large frame) followed by small ones, under several
    segmentations: the bytes after a large frame belong to the next frame"""
    viols, sigs = [], set()
    rig = Rig()
    n = 0
    streams = set()
    base_target = 'peer' if target == 'peer-obf' else target
    obf = target == 'peer-obf'
    try:
        for size in (32768 - 9, 32768, 40000, 70000, 140000):
            big = BIG[base_target](size)
            bigb = big.serialize()
            hostile = bigb[:8] + b'\xff\xff\xff\x7f' + bigb[12:]        # same length, lying string length
            for kind, first in (('valid', (bigb, big, False)), ('hostile', (hostile, None, False))):
                total = len(bigb) + (4 if obf else 0)
                plans = {'one-chunk': None, 'frame-by-frame': 'frames', 'at-32768': [32768], 'mid-next': [total + 5],
                         'every-8192': list(range(8192, total + 20, 8192)), 'tail-with-next': [total - 3]}
                for pname, cuts in plans.items():
                    s1 = SENTINELS[base_target](rig.n_sent)
                    s2 = SENTINELS[base_target](rig.n_sent + 1)
                    rig.n_sent += 2
                    frames = [first, (s1.serialize(), s1, True), (bigb, big, False), (s2.serialize(), s2, True)]
                    if target == 'server' and rig.cw.client.network.server_connection.state != ConnectionState.CONNECTED:
                        rig.close()
                        rig = Rig()
                    n += 1
                    streams.add(hash((size, kind, pname)))
                    if cuts == 'frames':
                        feed_and_check(rig, target, frames, f'large-{kind}:{size}:{pname}', cuts=None, coalesce=False,
                                       sigs=sigs, viols=viols)
                    else:
                        feed_and_check(rig, target, frames, f'large-{kind}:{size}:{pname}', cuts=cuts, sigs=sigs, viols=viols)
    finally:
        rig.close()
    return {'executions': n, 'violations': c01._vd(viols), 'states': 0, 'transitions': 0,
            'outcomes': [f'L{s}' for s in streams], 'capped': False,
            'samples': [{'target': target, 'case': 'large frames'}]}


def run_midframe_timeout(target: str) -> dict:
    """the stream ends in the middle of a frame: the read time-out closes the connection (no hang, no crash)"""
    viols, sigs = [], set()
    rig = Rig()
    try:
        conn, pc, obf = rig.new_conn(target) if target != 'server' else (None, None, None)
        if target == 'server':
            conn, sender, obf = rig.server_conn()
            send = sender.send
        else:
            send = pc.end.send
        send(enc(b'\x40\x00\x00\x00\x01\x00\x00\x00\x05', obf)[: (12 if obf else 9)])
            # every frame the library itself sends on the connection moves its read deadline by one read time-out (60 s):
        # leave room for the handful of frames sent on a fresh connection (branch level / root to a new child)
        rig.world.horizon = rig.world.now() + (700 if target == 'server' else 400)
        rig.world.run()
        if conn.state != ConnectionState.CLOSED:
            viols.append(Violation('midframe-hang', f"{target}: connection still {conn.state.name} after the read time-out",
                                   signature=f'C02:midframe-hang:{target}'))
        unret = rig.world.unretrieved_task_exceptions()
        if unret:
            viols.append(Violation('task-exception', unret[0], signature='C02:task-exception:midframe'))
    finally:
        rig.close()
    return {'executions': 1, 'violations': c01._vd(viols), 'states': 0, 'transitions': 0,
            'outcomes': [f'midframe-{target}'], 'capped': False, 'samples': [{'target': target, 'case': 'mid-frame end'}]}


TARGETS = ['server', 'accept', 'peer', 'peer-obf', 'dist']


def scenarios(tier: str):
    out = []
    for target in TARGETS:
        keys = target_classes(target)
        chunk = 4 if target == 'server' else 3
        for i in range(0, len(keys), chunk):
            out.append({'kind': 'classes', 'target': target, 'keys': keys[i:i + chunk]})
    for target in ('server', 'peer', 'peer-obf', 'dist'):
        syms = sorted(alphabet(target))
        for first in syms:
            out.append({'kind': 'seq', 'target': target, 'maxlen': 3 if tier == 'quick' else 4, 'first': [first]})
        for seq in (['AT', 'KA'] if tier == 'quick' else ['AT', 'KA', 'LB', 'UAE', 'AB']):
            if any(c not in syms for c in seq):
                continue        # the target's message has no length / string field to corrupt
            parts = 4 if tier == 'quick' else 16
            for part in range(parts):
                out.append({'kind': 'cuts', 'target': target, 'seq': seq, 'two': True, 'part': part,
                            'parts': parts})
        if target != 'server':     # every ping the client sends pushes the server read time-out further
            out.append({'kind': 'midframe', 'target': target})
        out.append({'kind': 'large', 'target': target})
    return out


def weight(params, tier):
    return {'classes': 5, 'seq': 3, 'cuts': 4, 'midframe': 1, 'large': 6}[params['kind']]


def run_scenario(params: dict, tier: str) -> dict:
    if params['kind'] == 'classes':
        return run_class_batch(params['target'], params['keys'], tier)
    if params['kind'] == 'seq':
        return run_sequences(params['target'], params['maxlen'], set(params['first']))
    if params['kind'] == 'cuts':
        return run_segmentation(params['target'], params['seq'], params['two'], params['part'], params['parts'])
    if params['kind'] == 'large':
        return run_large_frames(params['target'])
    return run_midframe_timeout(params['target'])


def replay(params: dict, choices: list, tier: str = 'quick') -> dict:
    return {'violations': run_scenario(params, tier)['violations']}
