"""C07 — a search over the shares returns exactly the files that match the query.

Real ``SharesManager`` over a generated directory tree (tmpfs); BFS over
histories of share operations (add / remove / update / scan / disk changes /
garbage collection) with canonical-state deduplication; in every state every
query of the term alphabet is compared with the reference matcher and the
reference index (vt/ref/shares.py), and the index invariants are checked.
"""
from __future__ import annotations
import gc
import itertools
import os
import shutil
import tempfile

from ..common import ERRORS, make_settings
from ..world import World, Violation
from ..bfs import bfs
from ..ref.shares import RefShares, query_matches

from aioslsk.events import EventBus
from aioslsk.shares.manager import SharesManager
from aioslsk.shares.model import DirectoryShareMode

PROPERTY = 'C07'
LEVEL = 'model_checking'
RULE = ("BFS over histories of share operations on the real SharesManager and a real directory tree; canonical state "
        "= shared roots + reference index + files on disk; every query of the alphabet (1-2 terms + a 3-4 term "
        "family, caps 1/2/100, with and without username) is evaluated in every state; distinct = distinct canonical states")
ASSUMPTIONS = [
    "reference matcher / index vt/ref/shares.py written from SOULSEEK.rst 'Query rules' and the documented add/remove rules",
    "the name of a nested shared root is never used as a query term (query paths are relative to the root an item "
    "was scanned under)",
    "folder/file counts are compared only in states where every indexed file was scanned under its current owner",
]

SCRATCH_ROOT = '/dev/shm' if os.path.isdir('/dev/shm') else tempfile.gettempdir()
TREE = [
    'A/song.mp3', 'A/my long song.mp3', 'A/So_Long-Live (été).flac', 'A/01 - ong.mp3',
    'A/zzsub/片仮名 song.mp3', 'A/zzsub/live [01] & so.mp3', "A/zzsub/deep/long's.ogg",
    'A/other/honey money.txt', 'A/other/zzsub/so long.mp3', 'A/zz/prefix song.mp3', 'B/song.mp3', 'B/live/SONG_long.MP3', 'B/été/01.flac',
]
EXTRA = ['A/zzsub/new song.mp3', 'B/new long.mp3']
# 'A/zz' is a sibling of 'A/zzsub' whose path is a string prefix of it (not a parent)
ROOTS = ['A', 'A/zzsub', 'A/zzsub/deep', 'B', 'A/zz']
TERMS = ['song', 'long', 'ong', 'so', 'live', 'été', '片仮名', '01', 'mp3', '*ong', '*ive', '*so', '*oney', '-song',
         '-live', '-mp3', 'so_long', "long's", '[01]', '&', 'nomatch', 'SONG', 'deep\\long', 'live\\song_long',
         'honey', '*ong.mp3', '-', '*']


def queries(tier):
    out = list(TERMS)
    out += [f'{a} {b}' for a, b in itertools.product(TERMS, repeat=2) if a != b]
    fam = ['song long', 'so live']
    for pre in fam:
        for c in ('mp3', '-mp3', '*ong', '01', '-live', 'nomatch'):
            out.append(f'{pre} {c}')
            for d in ('-flac', '*ive', 'été'):
                out.append(f'{pre} {c} {d}')
    return out


class Rig:
    def __init__(self, base: str):
        self.base = base
        self.world = World(horizon=10.0, deviations=False)
        self.bus = EventBus()
        self.settings = make_settings(_copy=True)
        self.settings.users.friends = {'friend'}
        self.manager = SharesManager(self.settings, self.bus, None)
        self.ref = RefShares()
        self.disk = set()
        self.reset_disk()

    def p(self, rel):
        return os.path.join(self.base, rel)

    def reset_disk(self):
        shutil.rmtree(self.base, ignore_errors=True)
        for rel in TREE:
            path = self.p(rel)
            os.makedirs(os.path.dirname(path), exist_ok=True)
            with open(path, 'wb') as fh:
                fh.write(b'x' * 10)
            os.utime(path, (1_600_000_000, 1_600_000_000))
        self.disk = {self.p(rel) for rel in TREE}

    def run(self, coro_fn):
        slot = self.world.op('u', 'op', coro_fn, record=False)
        self.world.run_default_until_idle()
        if 'exc' in slot:
            raise slot['exc_obj']
        return slot.get('result')

    def enabled(self, ev):
        kind = ev[0]
        root = self.p(ev[1]) if len(ev) > 1 and kind in ('add', 'remove', 'update', 'scan') else None
        if kind == 'add':
            return root not in self.ref.roots
        if kind in ('remove', 'update', 'scan'):
            return root in self.ref.roots
        if kind == 'create':
            return self.p(ev[1]) not in self.disk
        if kind in ('delete', 'touch'):
            return self.p(ev[1]) in self.disk
        return True

    def apply(self, ev):
        kind = ev[0]
        m = self.manager
        if kind == 'add':
            mode = DirectoryShareMode(ev[2])
            m.add_shared_directory(self.p(ev[1]), share_mode=mode, users=['u1'] if ev[2] == 'users' else None)
            self.ref.add(self.p(ev[1]), ev[2], ('u1',) if ev[2] == 'users' else ())
        elif kind == 'remove':
            m.remove_shared_directory(m.get_shared_directory(self.p(ev[1])))
            self.ref.remove(self.p(ev[1]))
        elif kind == 'update':
            m.update_shared_directory(self.p(ev[1]), share_mode=DirectoryShareMode(ev[2]))
            self.ref.update(self.p(ev[1]), ev[2])
        elif kind == 'scan':
            d = m.get_shared_directory(self.p(ev[1]))
            self.run(lambda: m.scan_directory_files(d))
            self.ref.scan(self.p(ev[1]), self.disk)
        elif kind == 'scan-all':
            self.run(lambda: m.scan())
            for root in sorted(self.ref.roots):
                self.ref.scan(root, self.disk)
        elif kind == 'create':
            path = self.p(ev[1])
            os.makedirs(os.path.dirname(path), exist_ok=True)
            with open(path, 'wb') as fh:
                fh.write(b'y' * 5)
            os.utime(path, (1_600_000_100, 1_600_000_100))
            self.disk.add(path)
        elif kind == 'delete':
            os.remove(self.p(ev[1]))
            self.disk.discard(self.p(ev[1]))
        elif kind == 'touch':
            os.utime(self.p(ev[1]), (1_600_000_500, 1_600_000_500))
        elif kind == 'gc':
            gc.collect()
        else:
            raise KeyError(kind)

    def check(self, ev, qs, viols, sigs):
        def add(clause, detail, sig):
            if sig not in sigs:
                sigs.add(sig)
                viols.append(Violation(clause, detail, signature=sig))
        m = self.manager
        # index: every indexed path in exactly one directory, the innermost current root containing it
        seen: dict[str, list] = {}
        for d in m.shared_directories:
            for item in d.items:
                seen.setdefault(item.get_absolute_path(), []).append(d.absolute_path)
        for path, owners in seen.items():
            if len(owners) > 1:
                add('indexed-twice', f"after {ev}: {self._rel(path)} is in {[self._rel(o) for o in owners]}",
                    'C07:indexed-twice')
        got_index = {path: owners[0] for path, owners in seen.items()}
        want_index = {f: v[0] for f, v in self.ref.index.items()}
        if got_index != want_index:
            extra = sorted(self._rel(x) for x in set(got_index) - set(want_index))
            missing = sorted(self._rel(x) for x in set(want_index) - set(got_index))
            moved = sorted(self._rel(x) for x in set(got_index) & set(want_index) if got_index[x] != want_index[x])
            add('index-differs', f"after {ev}: extra {extra} missing {missing} wrong-owner {moved}",
                f"C07:index-differs:{'extra' if extra else ''}{'missing' if missing else ''}{'owner' if moved else ''}")
        if all(v[0] == v[1] for v in self.ref.index.values()):
            if m.get_stats() != self.ref.stats():
                add('stats-differ', f"after {ev}: get_stats()={m.get_stats()} reference {self.ref.stats()}",
                    'C07:stats-differ')
        # queries
        for q in qs:
            want = self.ref.query(q)
            for cap, username in ((100, None), (100, 'stranger'), (1, None), (2, 'friend')):
                if (cap, username) != (100, None) and ' ' in q and not q.startswith('song long'):
                    continue
                self.settings.searches.receive.max_results = cap
                try:
                    vis, locked = m.query(q, username=username)
                except Exception as exc:
                    add('query-raises', f"after {ev}: query {q!r}: {exc!r}", f'C07:query-raises:{type(exc).__name__}')
                    continue
                got = [i.get_absolute_path() for i in vis] + [i.get_absolute_path() for i in locked]
                gs = set(got)
                if len(gs) != len(got):
                    add('duplicate-result', f"after {ev}: query {q!r}: {sorted(map(self._rel, got))}", 'C07:duplicate-result')
                if not gs <= want:
                    add('false-positive', f"after {ev}: query {q!r} (cap {cap}) returned "
                        f"{sorted(self._rel(x) for x in gs - want)} which do not match / are not shared",
                        f'C07:false-positive:{_qkind(q)}')
                elif len(gs) != min(cap, len(want)):
                    add('missing-result', f"after {ev}: query {q!r} (cap {cap}, user {username}) returned "
                        f"{sorted(map(self._rel, gs))}, expected {sorted(map(self._rel, want))}",
                        f'C07:missing-result:{_qkind(q)}')
        self.settings.searches.receive.max_results = 100
        if ERRORS.records:
            add('error-log', ERRORS.records[0], 'C07:error-log')

    def _rel(self, path):
        return os.path.relpath(path, self.base)

    def canon(self):
        # the modification times belong to the state: a file touched since the last scan makes the next scan differ
        return (self.ref.key(), tuple(sorted((p, int(os.stat(p).st_mtime)) for p in self.disk)))

    def close(self):
        self.world.close()


def _qkind(q):
    kinds = set()
    for t in q.split():
        kinds.add('wildcard' if t.startswith('*') else 'exclude' if t.startswith('-') else 'plain')
    return '+'.join(sorted(kinds))


def alphabet(tier):
    evs = []
    for r in ROOTS:
        evs.append(('add', r, 'everyone'))
        evs.append(('remove', r))
        evs.append(('scan', r))
    evs.append(('add', 'A/zzsub', 'friends'))
    evs.append(('update', 'A', 'friends'))
    evs.append(('scan-all',))
    evs.append(('create', EXTRA[0]))
    evs.append(('create', EXTRA[1]))
    evs.append(('delete', 'A/song.mp3'))
    evs.append(('delete', 'A/zzsub/片仮名 song.mp3'))
    evs.append(('touch', 'A/my long song.mp3'))
    evs.append(('gc',))
    return evs


def run_bfs(prefix, depth, tier, reduced=False) -> dict:
    first = prefix
    base = tempfile.mkdtemp(prefix='c07-', dir=SCRATCH_ROOT)
    evs = alphabet(tier)
    if reduced:
        evs = [e for e in evs if e[0] in ('add', 'remove', 'scan', 'scan-all', 'create', 'delete') and e[-1] != 'friends']
    qs = queries(tier)
    execs = [0]
    ERRORS.records.clear()

    def apply(hist, ev):
        gc.disable()
        rig = Rig(base)
        execs[0] += 1
        viols, sigs = [], set()
        try:
            for h in hist:
                if rig.enabled(h):
                    rig.apply(h)
            if ev is not None:
                if not rig.enabled(ev):
                    return ('disabled',), [], None
                rig.apply(ev)
            rig.check(ev, qs, viols, sigs)
            return rig.canon(), viols, None
        finally:
            rig.close()
            gc.enable()

    try:
        res = bfs([tuple(prefix)], lambda hist, info: evs, apply, max_depth=depth)
    finally:
        shutil.rmtree(base, ignore_errors=True)
    return {'executions': execs[0], 'violations': res.violations, 'states': res.states,
            'transitions': res.transitions, 'outcomes': [f'{first}:{o}' for o in res.outcomes],
            'capped': False, 'samples': res.samples[:1] or [[str(first)]],
            'extra': {'queries_evaluated': res.states * len(qs), 'bfs_max_depth': res.max_depth}}


def scenarios(tier: str):
    out = []
    for ev in alphabet(tier):
        if ev[0] not in ('add', 'create', 'delete'):
            continue      # a history that starts with an operation on nothing is equivalent to a shorter one
        for ev2 in alphabet(tier):
            # measured per prefix: depth 3 full alphabet ~2 600 histories / 45 s, depth 4 reduced alphabet ~6 600 / 125 s,
            # depth 5 reduced ~25 000 / 550 s (x 245 prefixes)
            out.append({'prefix': [list(ev), list(ev2)], 'depth': 2 if tier == 'quick' else 3})
            if tier != 'quick':
                out.append({'prefix': [list(ev), list(ev2)], 'depth': 4, 'reduced': True})
    # seeded non-initial states: three levels of nested roots, scanned or not
    e = 'everyone'
    seeds = [
        [('add', 'A', e), ('add', 'A/zzsub', e), ('add', 'A/zzsub/deep', e)],
        [('add', 'A', e), ('add', 'A/zzsub', e), ('add', 'A/zzsub/deep', e), ('scan-all',)],
        [('add', 'A', e), ('scan', 'A'), ('add', 'A/zzsub', e), ('add', 'A/zzsub/deep', e)],
        [('add', 'A', e), ('add', 'A/zzsub/deep', e), ('scan-all',), ('add', 'A/zzsub', e)],
        [('add', 'A', e), ('add', 'B', e), ('scan-all',), ('create', EXTRA[0]), ('delete', 'A/song.mp3')],
    ]
    for sd in seeds:
        out.append({'prefix': [list(x) for x in sd], 'depth': 2 if tier == 'quick' else 3})
    return out


def run_scenario(params: dict, tier: str) -> dict:
    return run_bfs([tuple(e) for e in params['prefix']], params['depth'], tier, reduced=params.get('reduced', False))


def replay(params: dict, choices: list, tier: str = 'quick') -> dict:
    base = tempfile.mkdtemp(prefix='c07-', dir=SCRATCH_ROOT)
    rig = Rig(base)
    viols, sigs = [], set()
    log = []
    try:
        for ev in choices:
            ev = eval(ev) if isinstance(ev, str) else tuple(ev)
            if rig.enabled(ev):
                rig.apply(ev)
                log.append(repr(ev))
        rig.check(choices[-1] if choices else None, queries(tier), viols, sigs)
        return {'violations': [str(v) for v in viols], 'history': log}
    finally:
        rig.close()
        shutil.rmtree(base, ignore_errors=True)
