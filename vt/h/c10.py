"""C10 — connection life cycle is monotone; the peer-connection registry is exact.

Real ``Network`` / ``PeerConnection`` / ``ServerConnection`` / ``ListeningConnection``
over SimNet.  Scenario = (direction, type, obfuscation, connect outcome / first
frame, ending); the explorer varies the order of the ending relative to the
hand-shake, the reader and concurrent calls.
"""
from __future__ import annotations
import asyncio
import itertools

from ..common import ERRORS, ConnObserver, install_virtual_time, make_settings
from ..world import World, Violation, EnvEvent
from ..simnet import SimNet, MemTransport
from ..actors import ScriptedServer, ScriptedPeer, enc
from ..explore import Chooser, explore

from aioslsk.network.network import Network
from aioslsk.network.connection import (
    CloseReason, ConnectionState, PeerConnection, ServerConnection, ListeningConnection)
from aioslsk.events import EventBus
from aioslsk.protocol.messages import (
    PeerInit, PeerPierceFirewall, PeerUserInfoRequest, PeerPlaceInQueueRequest, DistributedBranchLevel,
    GetUserStatus, Ping)

PROPERTY = 'C10'
LEVEL = 'model_checking'
RULE = ("scenario = direction x connection type x obfuscation x connect outcome / first frame x ending; every "
        "schedule within the deviation bound runs on the real Network; distinct = distinct logs of reported states, "
        "messages and registry snapshots")
ASSUMPTIONS = [
    "VLoop ordering; in-memory transport: close() -> connection_lost(None) next iteration, peer sees EOF in order",
    "an accepted connection awaiting its init message is 'open' although its reported state is still UNINITIALIZED",
]

ORDER = {
    ConnectionState.UNINITIALIZED: 0, ConnectionState.CONNECTING: 1, ConnectionState.CONNECTED: 2,
    ConnectionState.CLOSING: 3, ConnectionState.CLOSED: 4}
PEER_IP = '10.0.3.7'


def _lib_transport(conn):
    w = getattr(conn, '_writer', None)
    if w is None:
        return None
    return w.transport


def _is_open(conn) -> bool:
    t = _lib_transport(conn)
    return isinstance(t, MemTransport) and not t.is_closing()


class Checker:
    def __init__(self, world, net, network, observer):
        self.world, self.net, self.network, self.observer = world, net, network, observer
        self.violations: list[Violation] = []
        self.sigs: set = set()
        self.closed_at_bytes: dict = {}
        self.n_states_seen = 0
        self.n_msgs_seen = 0
        self.closed_conns: set = set()
        world.boundary_hooks.append(self.on_boundary)

    def add(self, clause, detail, sig):
        if sig not in self.sigs:
            self.sigs.add(sig)
            self.violations.append(Violation(clause, detail, signature=sig))

    def on_boundary(self):
        obs = self.observer
        # record wire position at the moment CLOSED was reported
        for conn, state, reason in obs.states[self.n_states_seen:]:
            if state == ConnectionState.CLOSED and isinstance(conn, (PeerConnection, ServerConnection)):
                if id(conn) not in self.closed_conns or isinstance(conn, ServerConnection):
                    self.closed_conns.add(id(conn))
        self.n_states_seen = len(obs.states)
        # messages after CLOSED
        world = self.world
        if not world.loop.has_ready() and not world.releasable():
            self.check_registry('quiescent')

    def check_registry(self, when):
        reg = list(self.network.peer_connections)
        if len(set(map(id, reg))) != len(reg):
            self.add('registry-duplicate', f"{when}: {reg}", 'C10:registry-duplicate')
        known = {id(c): c for c, _, _ in self.observer.states if isinstance(c, PeerConnection)}
        for c in reg:
            known[id(c)] = c
        unresolved = {(h, p) for h, p, f in self.net.unresolved_connects if not f.done()}
        # every open socket of the library that is not the server connection belongs to a registered connection
        # (also one that was accepted and still waits for its init message: nothing was reported for it yet)
        reg_t = {id(_lib_transport(c)) for c in reg}
        srv_t = _lib_transport(self.network.server_connection)
        for t in self.net.open_library_transports():
            if t is srv_t or id(t) in reg_t:
                continue
            self.add('registry-missing-entry', f"{when} t={self.world.now()}: an open socket ({t.conn.label}) belongs to no "
                     f"registered peer connection", 'C10:registry-missing-entry:unregistered-socket')
        for c in known.values():
            expected = _is_open(c) or (
                c.state == ConnectionState.CONNECTING and (c.hostname, c.port) in unresolved)
            if not expected and c.connection_type == 'F' and c.state == ConnectionState.CONNECTED:
                # a file connection has no reader task: a peer-side reset/EOF is only noticed by the next
                # read or write of the transfer code, until then the library rightly believes it open
                continue
            actual = any(c is r for r in reg)
            if expected != actual:
                kind = 'stale-entry' if actual else 'missing-entry'
                self.add(
                    'registry-' + kind,
                    f"{when} t={self.world.now()}: {c!r} open={_is_open(c)} registered={actual}",
                    f"C10:registry-{kind}:{c.state.name}:{'in' if c.incoming else 'out'}")

    def final(self):
        obs = self.observer
        per_conn: dict[int, list] = {}
        objs = {}
        for idx, (conn, state, reason) in enumerate(obs.states):
            if isinstance(conn, ListeningConnection):
                continue
            per_conn.setdefault(id(conn), []).append((idx, state, reason))
            objs[id(conn)] = conn
        for cid, seq in per_conn.items():
            conn = objs[cid]
            is_server = isinstance(conn, ServerConnection)
            names = [s.name for _, s, _ in seq]
            prev = None
            closed = 0
            for _, state, _ in seq:
                if state == ConnectionState.CLOSED:
                    closed += 1
                if prev is not None:
                    ok = ORDER[state] > ORDER[prev]
                    if is_server and prev == ConnectionState.CLOSED and state == ConnectionState.CONNECTING:
                        ok = True
                    if not ok:
                        what = 'after-closed' if prev == ConnectionState.CLOSED else 'backwards'
                        self.add(
                            'state-order', f"{conn.__class__.__name__} incoming={getattr(conn, 'incoming', None)} "
                            f"reported {names}", f"C10:state-order:{what}:{prev.name}>{state.name}")
                prev = state
            if not is_server and closed > 1:
                self.add('closed-twice', f"{conn!r} reported {names}", 'C10:closed-twice')
            unnoticed = getattr(conn, 'connection_type', None) == 'F' and conn.state == ConnectionState.CONNECTED
            if not _is_open(conn) and seq and seq[-1][1] != ConnectionState.CLOSED and \
                    conn.state != ConnectionState.CONNECTING and not unnoticed:
                # reported, socket gone, but CLOSED never reported last
                self.add('closed-missing', f"{conn!r} reported {names} and its socket is closed",
                         f"C10:closed-missing:{names[-1]}")
        # no message delivered after CLOSED (event order is the observer's append order)
        # we interleave by logging positions: ConnObserver keeps a global sequence
        seq_no = obs.sequence
        closed_pos: dict[int, int] = {}
        for pos, kind, conn, payload in seq_no:
            if kind == 'state' and payload == ConnectionState.CLOSED:
                closed_pos[id(conn)] = pos
            elif kind == 'state' and payload == ConnectionState.CONNECTING:
                closed_pos.pop(id(conn), None)
            elif kind == 'msg' and id(conn) in closed_pos:
                self.add('message-after-closed', f"{payload!r} delivered from {conn!r} after CLOSED",
                         'C10:message-after-closed')
        self.check_registry('final')
        return self.violations


class SeqObserver(ConnObserver):
    def __init__(self, world, bus):
        super().__init__(world, bus)
        self.sequence: list = []

    def on_state(self, event):
        super().on_state(event)
        self.sequence.append((len(self.sequence), 'state', event.connection, event.state))
        c = event.connection
        self.world.log('state', c.__class__.__name__[:4], getattr(c, 'incoming', None), event.state.name,
                       event.close_reason.name)

    def on_message(self, event):
        super().on_message(event)
        self.sequence.append((len(self.sequence), 'msg', event.connection, event.message))
        self.world.log('msg', event.message.__class__.__qualname__)


def _msg_for(typ):
    if typ == 'D':
        return DistributedBranchLevel.Request(3)
    return PeerUserInfoRequest.Request()


def run_one(params: dict, chooser, deviations=True) -> dict:
    ERRORS.records.clear()
    kind = params['kind']
    horizon = {'out': 90.0, 'in': 140.0, 'server': 700.0, 'netdisc': 90.0}[kind]
    if params.get('auto_reconnect'):
        horizon = 45.0        # the watchdog ticks twice a second: keep the executions short
    world = World(chooser=chooser, horizon=horizon, deviations=False, slowcpu=True)
    try:
        net = SimNet(world, losable=False)
        install_virtual_time(world)
        server = ScriptedServer(net)
        netcfg = {'peer': {'connect_mode': 'fallback'}}
        if params.get('auto_reconnect'):
            # the library's own watchdog reconnects, after a delay that is shorter than a slow close takes
            netcfg['server'] = {'reconnect': {'auto': True, 'timeout': params['auto_reconnect']}}
        settings = make_settings(_copy=False, network=netcfg)
        bus = EventBus()
        network = Network(settings, bus)
        obs = SeqObserver(world, bus)
        if params.get('slow_listener'):
            # a listener of the application that takes its time when a connection is reported closed
            from aioslsk.events import ConnectionStateChangedEvent as _CSE

            async def slow_closed_listener(event):
                if event.state == ConnectionState.CLOSED and isinstance(event.connection, PeerConnection):
                    await asyncio.sleep(0)
                    await asyncio.sleep(float(params['slow_listener']))
            world.keep.append(slow_closed_listener)
            bus.register(_CSE, slow_closed_listener)
        checker = Checker(world, net, network, obs)
        wire_after_close = []
        typ = params.get('typ', 'P')
        obf = params.get('obf', False)
        ending = params.get('ending')

        if kind != 'server' or params.get('listen', True):
            async def setup():
                await network.connect_listening_ports()
                if kind != 'server':
                    await network.connect_server()
                    network.server_connection.start_reader_task()
            world.op('setup', 'init', setup, record=False)
            world.run_default_until_idle()

        world.deviations = deviations
        holder: dict = {}

        def the_conn():
            return holder.get('conn')

        # ---- endings as driver ops / injections ---------------------------------------------
        def schedule_ending(after_thread: str):
            """queues the ending after the connection is established"""
            if ending in (None, 'none', 'rtimeout'):
                return
            if ending in ('disc1', 'disc2', 'disc-cancel'):
                async def disc(reason=CloseReason.REQUESTED):
                    c = the_conn()
                    if c is not None:
                        await c.disconnect(reason)
                dslot = world.op(after_thread, 'disconnect', disc)
                if ending == 'disc2':
                    world.op('v', 'disconnect2', lambda: disc(CloseReason.UNKNOWN))
                if ending == 'disc-cancel':
                    # the task running disconnect() is itself cancelled while it waits for the close
                    async def cancel_disc():
                        t = dslot.get('task')
                        if t is not None and not t.done():
                            world.log('cancel-disconnect')
                            t.cancel()
                    world.op('v', 'cancel-disconnect', cancel_disc, guard=lambda: 'task' in dslot)
            elif ending in ('eof', 'reset', 'two-then-eof'):
                def inject():
                    pc = holder.get('peer_conn')
                    if pc is None:
                        return
                    if ending == 'two-then-eof':
                        pc.end.send(enc(_msg_for(typ), pc.obfuscated and typ == 'P') +
                                    enc(_msg_for(typ), pc.obfuscated and typ == 'P'))
                        pc.close()
                    elif ending == 'eof':
                        pc.close()
                    else:
                        pc.reset()
                world.post(EnvEvent('inject', f'peer-{ending}', inject, chan=None,
                                    guard=lambda: holder.get('peer_conn') is not None and the_conn() is not None))
            elif ending in ('wfail_send', 'wfail_queue', 'wstall', 'two-then-disc', 'qdisc2'):
                async def act():
                    c = the_conn()
                    if c is None:
                        return
                    t = _lib_transport(c)
                    if ending == 'two-then-disc':
                        pc = holder.get('peer_conn')
                        pc.end.send(enc(_msg_for(typ), pc.obfuscated and typ == 'P') +
                                    enc(_msg_for(typ), pc.obfuscated and typ == 'P'))
                        await asyncio.sleep(0)
                        await c.disconnect(CloseReason.REQUESTED)
                        return
                    if t is None:
                        return
                    if ending == 'qdisc2':
                        # a queued message is still waiting to be written while two disconnects overlap
                        t.get_protocol().pause_writing()
                        c.queue_message(_msg_for(typ))
                        await asyncio.sleep(0)
                        await c.disconnect(CloseReason.REQUESTED)
                    elif ending == 'wstall':
                        t.get_protocol().pause_writing()
                        await c.send_message(_msg_for(typ))
                    else:
                        t.fail_writes = ConnectionResetError(104, 'reset')
                        if ending == 'wfail_send':
                            await c.send_message(_msg_for(typ))
                        else:
                            task = c.queue_message(_msg_for(typ))
                            await asyncio.gather(task, return_exceptions=True)
                world.op(after_thread, ending, act)
                if ending == 'qdisc2':
                    async def disc2():
                        c = the_conn()
                        if c is not None:
                            await c.disconnect(CloseReason.UNKNOWN)
                    world.op('v', 'disconnect2', disc2, guard=lambda: the_conn() is not None)

        def schedule_reader(thread: str):
            """file connections have no reader task: the transfer code reads them directly"""
            async def read():
                c = the_conn()
                if c is None:
                    return 'no-conn'
                try:
                    data = await c.receive_data(4)
                except Exception as exc:
                    return type(exc).__name__
                return 'eof' if data is None else len(data)
            world.op(thread, 'receive_data', read, guard=lambda: the_conn() is not None)

        def schedule_probe(thread: str):
            async def probe():
                c = the_conn()
                if c is None:
                    return 'no-conn'
                await asyncio.sleep(params.get('probe_delay', 75.0))
                sc = holder.get('sim_conn')
                before = len(sc.sent_log[holder['lib_side']]) if sc is not None else 0
                state = c.state
                try:
                    await c.send_message(_msg_for(typ))
                except Exception as exc:
                    return f'{state.name}:{type(exc).__name__}'
                after = len(sc.sent_log[holder['lib_side']]) if sc is not None else 0
                if state == ConnectionState.CLOSED and after != before:
                    checker.add('send-after-closed', f"{after - before} bytes written after CLOSED",
                                'C10:send-after-closed')
                return f'{state.name}:{after - before}'
            world.op(thread, 'probe', probe)

        if kind == 'out':
            outcome = params['connect']
            port = 5000 + (1 if obf else 0)
            if outcome == 'ok':
                peer = ScriptedPeer(net, 'bob', PEER_IP, port=5000, obfuscated_port=5001)

                def on_conn(pc):
                    holder['peer_conn'] = pc
                    holder['sim_conn'] = pc.end.conn
                    holder['lib_side'] = 0
                peer.on_conn = on_conn
                peer.close_on_eof = True
            elif outcome == 'hang':
                net.routes[(PEER_IP, port)] = 'hang'
            elif outcome == 'badport':
                port = 70000 + (1 if obf else 0)     # the peer announced a port outside the 16 bit range
            else:
                net.routes[(PEER_IP, port)] = 'refuse'

            async def connect():
                c = await network.create_peer_connection('bob', typ, ip=PEER_IP, port=port, obfuscate=obf)
                holder['conn'] = c
                return c.state.name
            slot = world.op('u', 'create_peer_connection', connect)
            if params.get('cancel'):
                async def cancel():
                    t = slot.get('task')
                    if t is not None and not t.done():
                        world.log('cancel-request')
                        t.cancel()
                world.op('x', 'cancel', cancel)
            if typ == 'F' and outcome == 'ok' and not params.get('cancel'):
                schedule_reader('r')
            schedule_ending('u')
            if outcome == 'ok' and not params.get('cancel'):
                schedule_probe('u')
        elif kind == 'in':
            first = params['first']
            port = 60001 if obf else 60000
            peer = ScriptedPeer(net, 'bob', PEER_IP, listen=False)
            pc = peer.connect(port, obfuscated=obf)
            holder['peer_conn'] = pc
            holder['sim_conn'] = pc.end.conn
            holder['lib_side'] = 1
            if first in ('P', 'D', 'F'):
                pc.send(PeerInit.Request('bob', first, 0))
                pc.init = 'sent'
                pc.set_type(first)
                typ = first
            elif first == 'pierce-unknown':
                pc.send(PeerPierceFirewall.Request(4242))
            elif first == 'undecodable':
                pc.end.send(enc(b'\x03\x00\x00\x00\x01\xff\xff', obf))
            elif first == 'non-init':
                pc.end.send(enc(b'\x05\x00\x00\x00\x09\x00\x00\x00\x00', obf))
            elif first == 'eof':
                pc.close()
            elif first == 'reset':
                pc.reset()
            elif first == 'partial-eof':
                pc.end.send(b'\x10\x00')
                pc.close()
            elif first == 'silence':
                pass

            def find_conn():
                if 'conn' not in holder:
                    for c, _, _ in obs.states:
                        if isinstance(c, PeerConnection) and c.incoming:
                            holder['conn'] = c
                    for c in network.peer_connections:
                        if c.incoming:
                            holder['conn'] = c
                return holder.get('conn')
            the_conn = find_conn  # noqa: F811
            if first in ('P', 'D', 'F'):
                if first == 'F':
                    schedule_reader('r')
                schedule_ending('u')
                schedule_probe('u')
        elif kind == 'netdisc':
            # Network.disconnect() while peer connections are open / being opened on a ConnectToPeer request
            from aioslsk.protocol.messages import ConnectToPeer
            outcome = params['connect']
            peer = ScriptedPeer(net, 'bob', PEER_IP, port=5000 if outcome == 'ok' else 0)
            if outcome == 'hang':
                net.routes[(PEER_IP, 5000)] = 'hang'
            elif outcome == 'refuse':
                net.routes[(PEER_IP, 5000)] = 'refuse'
            if params.get('established') == 'silent':
                # accepted, has not sent its init message yet
                other = ScriptedPeer(net, 'carol', '10.0.3.8', listen=False)
                holder['silent'] = other.connect(60000)
                world.run_default_until_idle()
            elif params.get('established'):
                other = ScriptedPeer(net, 'carol', '10.0.3.8', listen=False)
                other.connect_init(60000, 'P')
                world.run_default_until_idle()

            if params.get('user_call'):
                # the connection is being opened by a call of the application (not by a ConnectToPeer request, whose
                # tasks the network tracks and cancels)
                async def user_connect():
                    try:
                        c = await network.create_peer_connection('bob', typ, ip=PEER_IP, port=5000, obfuscate=False)
                    except Exception as exc:
                        return type(exc).__name__
                    return c.state.name
                world.op('w', 'create_peer_connection', user_connect)
            else:
                def relay():
                    server.send(ConnectToPeer.Response('bob', typ, PEER_IP, 5000, 777, False, 0, 0))
                world.post(EnvEvent('inject', 'connect-to-peer', relay, chan=None))

            async def netdisc():
                await network.disconnect()
                holder['netdisc_done'] = True
            world.op('u', 'network.disconnect', netdisc)
            if params.get('established') == 'silent':
                # the init message arrives after the shutdown
                def late_init():
                    pcs = holder.get('silent')
                    if pcs is not None and not pcs.end.closed:
                        from aioslsk.protocol.messages import PeerInit
                        pcs.send(PeerInit.Request('carol', 'P', 0))
                world.post(EnvEvent('inject', 'late-init', late_init, chan=None,
                                    guard=lambda: holder.get('netdisc_done', False)))
        else:   # server
            outcome = params['connect']
            if outcome == 'hang':
                net.routes[('server.sim', 2416)] = 'hang'
            elif outcome == 'refuse':
                net.routes[('server.sim', 2416)] = 'refuse'

            def on_session(srv, end):
                class _PC:
                    obfuscated = False
                pcx = _PC()
                pcx.end = end
                pcx.close = end.close
                pcx.reset = end.reset
                holder['peer_conn'] = pcx
                holder['sim_conn'] = end.conn
                holder['lib_side'] = 0
            server.on_session = on_session
            server.close_on_eof = True

            async def connect():
                await network.connect_server()
                network.server_connection.start_reader_task()
                holder['conn'] = network.server_connection
                return network.server_connection.state.name
            world.op('u', 'connect_server', connect)
            typ = 'S'
            if ending in ('eof', 'reset'):
                def inject():
                    pcx = holder.get('peer_conn')
                    (pcx.close if ending == 'eof' else pcx.reset)()
                world.post(EnvEvent('inject', f'server-{ending}', inject, chan=None,
                                    guard=lambda: holder.get('peer_conn') is not None and holder.get('conn') is not None))
            elif ending == 'disc1':
                async def disc():
                    await network.disconnect_server()
                world.op('u', 'disconnect_server', disc)
            elif ending in ('wstall', 'wstall-slowclose'):
                async def act():
                    t = _lib_transport(network.server_connection)
                    if t is not None:
                        t.get_protocol().pause_writing()
                        if ending == 'wstall-slowclose':
                            t.slow_close = True       # the server stopped reading: the close cannot flush either
                        await network.server_connection.send_message(Ping.Request())
                world.op('u', 'wstall', act)
            if params.get('reconnect'):
                async def reconnect():
                    await asyncio.sleep(650.0 if ending == 'rtimeout' else 20.0)
                    if network.server_connection.state == ConnectionState.CLOSED:
                        await network.connect_server()
                        network.server_connection.start_reader_task()      # as the client does after its login
                        return network.server_connection.state.name
                    return 'not-closed'
                world.op('u', 'reconnect', reconnect)

        world.state_fn = lambda: (
            tuple(sorted((c.state.name, c.connection_state.name) for c in network.peer_connections)),
            network.server_connection.state.name, len(obs.states),
            tuple(sorted(ev.key for ev in world.pending)))
        world.run()
        violations = checker.final()
        unret = world.unretrieved_task_exceptions()
        if unret:
            violations.append(Violation('task-exception', unret[0], signature='C10:task-exception:' + unret[0].split(':', 1)[1].strip()[:40]))
        if world.loop_errors():
            violations.append(Violation('loop-error', world.loop_errors()[0], signature='C10:loop-error:' + world.loop_errors()[0][:50]))
        return {'violations': violations, 'obs': list(world.obs), 'transitions': world.loop.batches,
                'states': set(world.state_keys), 'trace': list(world.trace),
                'nontrivial': any(o[1] == 'state' and o[4] == 'CLOSED' for o in world.obs)}
    finally:
        world.close()


def scenarios(tier: str):
    out = []
    endings_pd = ['disc1', 'disc2', 'disc-cancel', 'eof', 'reset', 'rtimeout', 'wfail_send', 'wfail_queue', 'wstall',
                  'two-then-eof', 'two-then-disc', 'qdisc2']
    endings_f = ['disc1', 'disc2', 'disc-cancel', 'eof', 'reset', 'wfail_send', 'wfail_queue', 'wstall', 'qdisc2']
    for obf in (False, True):
        for typ in ('P', 'D', 'F'):
            for ending in (endings_f if typ == 'F' else endings_pd):
                out.append({'kind': 'out', 'typ': typ, 'obf': obf, 'connect': 'ok', 'ending': ending})
            out.append({'kind': 'out', 'typ': typ, 'obf': obf, 'connect': 'ok', 'ending': 'none', 'cancel': True})
            for outcome in ('refuse', 'hang', 'badport'):
                out.append({'kind': 'out', 'typ': typ, 'obf': obf, 'connect': outcome, 'ending': 'none'})
                out.append({'kind': 'out', 'typ': typ, 'obf': obf, 'connect': outcome, 'ending': 'none', 'cancel': True})
        for first in ('P', 'D', 'F'):
            for ending in (['disc1', 'disc2', 'disc-cancel', 'eof', 'reset', 'wfail_send', 'wstall', 'qdisc2'] +
                           (['rtimeout', 'two-then-eof', 'two-then-disc'] if first != 'F' else [])):
                out.append({'kind': 'in', 'first': first, 'obf': obf, 'ending': ending})
        for first in ('pierce-unknown', 'undecodable', 'non-init', 'eof', 'reset', 'partial-eof', 'silence'):
            out.append({'kind': 'in', 'first': first, 'obf': obf})
        # a listener that suspends while the connection is reported closed
        for ending in ('eof', 'disc1', 'disc-cancel', 'reset'):
            out.append({'kind': 'in', 'first': 'P', 'obf': obf, 'ending': ending, 'slow_listener': 1.0})
            out.append({'kind': 'out', 'typ': 'P', 'obf': obf, 'connect': 'ok', 'ending': ending, 'slow_listener': 1.0})
    for outcome in ('ok', 'refuse', 'hang'):
        for typ in ('P', 'F'):
            for est in (False, True, 'silent'):
                out.append({'kind': 'netdisc', 'connect': outcome, 'typ': typ, 'established': est})
            out.append({'kind': 'netdisc', 'connect': outcome, 'typ': typ, 'established': False, 'user_call': True})
    for outcome in ('ok', 'refuse', 'hang'):
        endings = ['disc1', 'eof', 'reset', 'rtimeout', 'wstall', 'wstall-slowclose'] if outcome == 'ok' else ['none']
        for ending in endings:
            for reconnect in (False, True):
                out.append({'kind': 'server', 'connect': outcome, 'ending': ending, 'reconnect': reconnect})
            if ending in ('reset', 'wstall', 'wstall-slowclose'):
                out.append({'kind': 'server', 'connect': outcome, 'ending': ending, 'reconnect': False, 'auto_reconnect': 1})
    return out


def weight(params, tier):
    return 3 if params['kind'] == 'out' else 2


def run_scenario(params: dict, tier: str) -> dict:
    bound = 2 if tier == 'quick' else 3
    if params.get('auto_reconnect'):
        bound -= 1
    res = explore(lambda ch: run_one(params, ch), bound=bound, max_exec=300000)
    return {'executions': res.executions, 'violations': res.violations, 'states': res.states,
            'transitions': res.transitions, 'outcomes': list(res.outcomes), 'nontrivial': list(res.nontrivial),
            'capped': res.capped, 'bound': res.bound_completed, 'samples': res.samples}


def replay(params: dict, choices: list, tier: str = 'quick') -> dict:
    out = run_one(params, Chooser(choices))
    return {'violations': [str(v) for v in out['violations']], 'trace': out['trace'], 'obs': out['obs']}
