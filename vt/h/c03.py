"""C03 — transfer state changes follow the documented graph; refusals have no effect.

(a) BFS to closure over all operation histories on a real ``Transfer`` (both
    directions, with / without local file and running tasks, through the state
    methods and through the ``TransferManager`` wrappers);
(b) all schedules (within a deviation bound that covers every interleaving of
    the few steps involved) of 2-3 operations issued concurrently from every
    state, with a slow-to-cancel transfer task and lazily executed file removal
    holding the transfer's lock, compared with the sequential orders.
"""
from __future__ import annotations
import asyncio
import itertools
import json
import os
import shutil
import tempfile

from ..common import ERRORS, install_virtual_time, make_settings
from ..world import World, Violation
from ..bfs import bfs
from ..explore import Chooser, explore

from aioslsk.events import EventBus
from aioslsk.exceptions import InvalidStateTransition, TransferNotFoundError
from aioslsk.transfer.manager import TransferManager
from aioslsk.transfer.model import Transfer, TransferDirection
from aioslsk.transfer.state import TransferState

PROPERTY = 'C03'
LEVEL = 'model_checking'
RULE = ("(a) BFS over operation histories on a real Transfer, canonical state = observable projection; (b) every "
        "schedule within the deviation bound of 2-3 concurrent operations from every state; distinct = distinct "
        "canonical states / observation logs")
ASSUMPTIONS = [
    "pinned graph pins/transfer_graph.json (from state.py at the pin + USAGE.rst)",
    "sentinel tasks stand for the transfer / remote-queue tasks (one acknowledges cancellation only after two more iterations)",
    "concurrent outcomes are compared with the outcomes the same implementation produces for the sequential orders",
]

with open(os.path.join(os.path.dirname(__file__), '..', '..', 'pins', 'transfer_graph.json')) as _fh:
    _PIN = json.load(_fh)
GRAPH = {k: set(v) for k, v in _PIN['edges'].items()}

STATE_OPS = ['queue', 'queue_r', 'pause', 'abort_req', 'abort_blk', 'fail_x', 'fail_n', 'complete', 'incomplete',
             'initialize', 'start']
MGR_OPS = ['m_abort', 'm_queue', 'm_pause', 'm_remove']
ENV_OPS = ['arm', 'armfull']     # give the transfer a local file (downloads) and live tasks, as the manager would;
#                                  armfull: nothing is left to transfer (empty file / resume at the announced size)
TARGET = {'queue': 'QUEUED', 'queue_r': 'QUEUED', 'pause': 'PAUSED', 'abort_req': 'ABORTED', 'abort_blk': 'ABORTED',
          'fail_x': 'FAILED', 'fail_n': 'FAILED', 'complete': 'COMPLETE', 'incomplete': 'INCOMPLETE',
          'initialize': 'INITIALIZING', 'start': None, 'm_abort': 'ABORTED', 'm_queue': 'QUEUED',
          'm_pause': 'PAUSED', 'm_remove': 'ABORTED'}

SCRATCH_ROOT = '/dev/shm' if os.path.isdir('/dev/shm') else tempfile.gettempdir()


class Listener:
    def __init__(self):
        self.events: list[tuple] = []

    async def on_transfer_state_changed(self, transfer, old, new):
        self.events.append((old.name, new.name))


class Rig:
    """A real Transfer (+ manager) in a world, driven op by op"""

    def __init__(self, direction: str, chooser=None, lazy_exec=False, slow_cancel=0, deviations=False,
                 scratch=None):
        self.world = World(chooser=chooser, horizon=50.0, deviations=deviations, lazy_exec=lazy_exec,
                           hold=False)
        install_virtual_time(self.world)
        self.direction = direction
        self.scratch = scratch or tempfile.mkdtemp(prefix='c03-', dir=SCRATCH_ROOT)
        self.own_scratch = scratch is None
        self.bus = EventBus()
        self.manager = TransferManager(make_settings(_copy=False), self.bus, None, None, None)
        self.transfer = Transfer(
            'bob', 'music\\song.mp3',
            TransferDirection.DOWNLOAD if direction == 'download' else TransferDirection.UPLOAD)
        self.listener = Listener()
        self.slow_cancel = slow_cancel
        self.file_path = os.path.join(self.scratch, 'song.mp3')
        self.sentinels: list[asyncio.Task] = []
        self.cancel_seen: list[str] = []
        self.world.op('setup', 'add', self._setup, record=False)
        self.world.run_default_until_idle()

    async def _setup(self):
        await self.manager.add(self.transfer)
        self.transfer.state_listeners.append(self.listener)

    def arm(self):
        t = self.transfer
        if self.direction == 'download':
            with open(self.file_path, 'wb') as fh:
                fh.write(b'data')
            t.local_path = self.file_path
            t.filesize = 10
            t.bytes_transfered = 4
        else:
            t.local_path = os.path.join(self.scratch, 'shared.mp3')
            with open(t.local_path, 'wb') as fh:
                fh.write(b'0123456789')
            t.filesize = 10
        loop = self.world.loop

        async def sentinel(name, slow):
            try:
                await asyncio.sleep(10000)
            except asyncio.CancelledError:
                self.cancel_seen.append(name)
                for _ in range(slow):
                    try:
                        await asyncio.sleep(0)     # takes a few iterations to wind down
                    except asyncio.CancelledError:
                        pass
                raise
        if t._transfer_task is None:
            t._transfer_task = loop.create_task(sentinel('transfer', self.slow_cancel), name='sentinel-transfer')
            t._transfer_task.add_done_callback(t._transfer_task_complete)
            self.sentinels.append(t._transfer_task)
        if t._remotely_queue_task is None:
            t._remotely_queue_task = loop.create_task(sentinel('queue', 0), name='sentinel-queue')
            t._remotely_queue_task.add_done_callback(t._remotely_queue_task_complete)
            self.sentinels.append(t._remotely_queue_task)

    def op_coro(self, op: str):
        t, m = self.transfer, self.manager
        st = t.state          # read when the operation starts, as the manager and the transfer coroutines do
        if op == 'queue':
            return st.queue()
        if op == 'queue_r':
            return st.queue(remotely=True)
        if op == 'pause':
            return st.pause()
        if op == 'abort_req':
            return st.abort(reason='Requested')
        if op == 'abort_blk':
            return st.abort(reason='Blocked')
        if op == 'fail_x':
            return st.fail(reason='Cancelled')
        if op == 'fail_n':
            return st.fail()
        if op == 'complete':
            return st.complete()
        if op == 'incomplete':
            return st.incomplete()
        if op == 'initialize':
            return st.initialize()
        if op == 'start':
            return st.start_transferring()
        if op in MGR_OPS:
            async def wrapped():
                try:
                    await getattr(m, op[2:])(t)
                except InvalidStateTransition:
                    return 'InvalidStateTransition'
                except TransferNotFoundError:
                    return 'TransferNotFoundError'
                return 'ok'
            return wrapped()
        raise KeyError(op)

    def projection(self):
        t = self.transfer
        return (
            t.state.VALUE.name, self.direction, t.abort_reason, t.fail_reason, t.remotely_queued,
            t.local_path is not None, self.file_exists(), t.start_time is not None, t.complete_time is not None,
            t._transfer_task is not None and not t._transfer_task.done(),
            t._remotely_queue_task is not None and not t._remotely_queue_task.done(),
            t.bytes_transfered, t.filesize, any(x is t for x in self.manager.transfers),
            tuple(sorted(set(self.cancel_seen))))

    def file_exists(self):
        return os.path.exists(self.file_path) if self.direction == 'download' else True

    def run_op_sequential(self, op: str):
        """applies one op under the default schedule; returns (result, events)"""
        if op in ('arm', 'armfull'):
            self.arm()
            if op == 'armfull':
                self.transfer.filesize = self.transfer.bytes_transfered = (4 if self.direction == 'download' else 0)
            self.world.run_default_until_idle()
            return 'armed', []
        before = len(self.listener.events)
        slot = self.world.op('u', op, lambda: self.op_coro(op), record=False)
        self.world.run_default_until_idle()
        if slot['state'] != 'done':
            return ('stuck:' + slot['state']), self.listener.events[before:]
        res = slot.get('result') if 'exc' not in slot else 'exc:' + slot['exc']
        return res, self.listener.events[before:]

    def close(self):
        self.world.close()
        if self.own_scratch:
            shutil.rmtree(self.scratch, ignore_errors=True)


def check_edges(events, where) -> list[Violation]:
    out = []
    for old, new in events:
        if new not in GRAPH.get(old, ()):
            out.append(Violation('illegal-edge', f"{where}: listeners saw {old} -> {new}",
                                 signature=f'C03:illegal-edge:{old}>{new}'))
    return out


def check_transition(direction, op, before, after, result, events) -> list[Violation]:
    """per-transition oracle of the sequential search"""
    out = check_edges(events, f"{direction} {before[0]} --{op}")
    if op in ('arm', 'armfull'):
        return out
    refused = (result is False) or result in ('InvalidStateTransition', 'TransferNotFoundError')
    if isinstance(result, str) and (result.startswith('exc:') or result.startswith('stuck')):
        out.append(Violation('op-raised', f"{direction} {before[0]} --{op}--> {result}",
                             signature=f'C03:op-raised:{op}:{result}'))
        return out
    if refused:
        if after != before or events:
            diff = [i for i, (a, b) in enumerate(zip(before, after)) if a != b]
            names = ['state', 'direction', 'abort_reason', 'fail_reason', 'remotely_queued', 'local_path', 'file',
                     'start_time', 'complete_time', 'transfer_task', 'queue_task', 'bytes', 'filesize', 'in_manager',
                     'cancelled']
            what = ','.join(names[i] for i in diff) or 'event'
            out.append(Violation(
                'refusal-side-effect', f"{direction} {before[0]} --{op}--> refused ({result}) but changed {what}: "
                f"{before} -> {after}, events {events}", signature=f'C03:refusal-side-effect:{op}:{what}'))
    else:
        if op == 'm_remove':
            if after[13]:
                out.append(Violation('remove-kept', f"{before[0]}: still in manager", signature='C03:remove-kept'))
            return out
        if len(events) != 1:
            out.append(Violation(
                'accepted-event-count', f"{direction} {before[0]} --{op}--> accepted with events {events}",
                signature=f'C03:accepted-event-count:{op}:{len(events)}'))
        else:
            want = TARGET[op] or ('UPLOADING' if direction == 'upload' else 'DOWNLOADING')
            if events[0] != (before[0], want) or after[0] != want:
                out.append(Violation(
                    'wrong-target', f"{direction} {before[0]} --{op}--> events {events}, state {after[0]} (want {want})",
                    signature=f'C03:wrong-target:{op}:{before[0]}>{after[0]}'))
        if op.startswith('m_') and result != 'ok':
            out.append(Violation('wrapper-result', f"{op}: {result}", signature=f'C03:wrapper-result:{op}'))
    # a manager wrapper must raise exactly when the state refused
    return out


# --- (a) sequential BFS --------------------------------------------------------------------------------------

def run_bfs(direction: str, max_depth: int) -> dict:
    scratch = tempfile.mkdtemp(prefix='c03-', dir=SCRATCH_ROOT)
    alphabet = ENV_OPS + STATE_OPS + MGR_OPS
    execs = [0]

    def apply(hist, ev):
        for f in os.listdir(scratch):
            os.remove(os.path.join(scratch, f))
        rig = Rig(direction, scratch=scratch)
        execs[0] += 1
        try:
            for op in hist:
                rig.run_op_sequential(op)
            if ev is None:
                return rig.projection(), [], None
            before = rig.projection()
            result, events = rig.run_op_sequential(ev)
            after = rig.projection()
            viols = check_transition(direction, ev, before, after, result, events)
            unret = rig.world.unretrieved_task_exceptions()
            if unret:
                viols.append(Violation('task-exception', unret[0], signature='C03:task-exception'))
            return after, viols, None
        finally:
            rig.close()

    try:
        res = bfs([()], lambda hist, info: alphabet, apply, max_depth=max_depth)
    finally:
        shutil.rmtree(scratch, ignore_errors=True)
    return {'executions': execs[0], 'violations': res.violations, 'states': res.states,
            'transitions': res.transitions, 'outcomes': [f'{direction}:{o}' for o in res.outcomes],
            'capped': False, 'samples': res.samples[:1] or [['queue']],
            'extra': {'bfs_closed': int(res.closed), 'bfs_max_depth': res.max_depth}}


# --- (b) concurrent -----------------------------------------------------------------------------------------------

PREFIX = {   # shortest history that reaches each state (VIRGIN is the empty history)
    'VIRGIN': [], 'QUEUED': ['queue'], 'PAUSED': ['pause'], 'INITIALIZING': ['queue', 'initialize'],
    'TRANSFERRING': ['queue', 'initialize', 'start'], 'COMPLETE': ['queue', 'initialize', 'start', 'complete'],
    'INCOMPLETE': ['queue', 'initialize', 'start', 'incomplete'], 'FAILED': ['queue', 'fail_x'],
    'ABORTED': ['queue', 'abort_req'],
}
CONC_OPS = ['queue', 'pause', 'abort_req', 'fail_x', 'complete', 'incomplete', 'initialize', 'start', 'm_abort']


def _sequential_outcomes(direction, state_name, arm, ops, slow_cancel):
    outs = set()
    for perm in itertools.permutations(range(len(ops))):
        rig = Rig(direction, slow_cancel=slow_cancel)
        try:
            for op in PREFIX[state_name]:
                rig.run_op_sequential(op)
            if arm:
                rig.run_op_sequential('arm')
            results = [None] * len(ops)
            for i in perm:
                results[i], _ = rig.run_op_sequential(ops[i])
            outs.add((tuple(map(repr, results)),) + _final(rig))
        finally:
            rig.close()
    return outs


def _final(rig):
    p = rig.projection()
    # state, abort_reason, fail_reason, local_path set, file present, tasks alive
    return (p[0], p[2], p[3], p[5], p[6], p[9], p[10])


def run_concurrent(params: dict, chooser) -> dict:
    direction, state_name, arm, ops = params['direction'], params['state'], params['arm'], params['ops']
    slow = params.get('slow_cancel', 2)
    if state_name == 'INCOMPLETE' and direction == 'upload':
        return {'violations': [], 'obs': 'n/a', 'transitions': 0}
    rig = Rig(direction, chooser=chooser, lazy_exec=True, slow_cancel=slow, deviations=False)
    try:
        world = rig.world
        for op in PREFIX[state_name]:
            rig.run_op_sequential(op)
        if arm:
            rig.run_op_sequential('arm')
        before = len(rig.listener.events)
        world.deviations = True
        slots = []
        if params.get('early_bind'):
            # the callers captured the state object (built the coroutine) before any of them ran, as
            # TransferManager does when it collects state.queue() / state.abort() coroutines for a later gather()
            pre = [rig.op_coro(op) for op in ops]
            for i, op in enumerate(ops):
                slots.append(world.op(f't{i}', op, (lambda i=i: pre[i]), record=True))
        else:
            for i, op in enumerate(ops):
                slots.append(world.op(f't{i}', op, (lambda op=op: rig.op_coro(op)), record=True))
        if params.get('cancel_first'):
            # the caller of the first (slow) operation gives up: its task is cancelled at a point the explorer picks
            async def cancel_first():
                t = slots[0].get('task')
                if t is not None and not t.done():
                    t.cancel()
            world.op('x', 'cancel-caller', cancel_first, record=False, guard=lambda: 'task' in slots[0])
        world.state_fn = lambda: (rig.projection(), tuple(s['state'] for s in slots),
                                  tuple(sorted(ev.key for ev in world.pending)))
        world.run()
        events = rig.listener.events[before:]
        viols = check_edges(events, f"{direction} {state_name} || {ops}")
        results = []
        cancelled_ops = [i for i, s in enumerate(slots) if s['state'] == 'cancelled']
        for s in slots:
            if s['state'] == 'cancelled':
                results.append('cancelled')
            elif s['state'] != 'done':
                viols.append(Violation('op-stuck', f"{s['name']} never returned ({s['state']})",
                                       signature=f"C03:op-stuck:{s['name']}"))
                results.append('stuck')
            else:
                results.append(s.get('result') if 'exc' not in s else 'exc:' + s['exc'])
        outcome = (tuple(map(repr, results)),) + _final(rig)
        if cancelled_ops:
            # a cancelled call may or may not have taken effect: compare with the sequential orders of the
            # operations with and without it (its own result is not compared)
            allowed = set()
            keep = [i for i in range(len(ops)) if i not in cancelled_ops]
            for subset in (list(range(len(ops))), keep):
                sub_ops = tuple(ops[i] for i in subset)
                for o in _seq_cache(direction, state_name, arm, sub_ops, slow):
                    res_map = dict(zip(subset, o[0]))
                    # a call cancelled half-way may already have stopped the tasks / removed the file:
                    # only results, state and reasons are compared
                    allowed.add((tuple(res_map.get(i, "'cancelled'") if i not in cancelled_ops else "'cancelled'"
                                       for i in range(len(ops))),) + o[1:4])
            if outcome[:4] not in allowed:
                viols.append(Violation(
                    'not-serializable',
                    f"{direction} {state_name}{'+armed' if arm else ''}: {ops} with the caller of #0 cancelled gave "
                    f"{outcome}, events {events}; allowed {sorted(allowed)}",
                    signature=f"C03:not-serializable-cancel:{state_name}:{'+'.join(sorted(ops))}"))
        elif not any(v.clause == 'op-stuck' for v in viols):
            allowed = _seq_cache(direction, state_name, arm, tuple(ops), slow)
            if outcome not in allowed:
                viols.append(Violation(
                    'not-serializable',
                    f"{direction} {state_name}{'+armed' if arm else ''}: concurrent {ops} gave results/final "
                    f"{outcome}, listener events {events}; sequential orders give {sorted(allowed)}",
                    signature=f"C03:not-serializable:{state_name}:{'+'.join(sorted(ops))}"))
        unret = world.unretrieved_task_exceptions()
        if unret:
            viols.append(Violation('task-exception', unret[0], signature='C03:task-exception'))
        return {'violations': viols, 'obs': (outcome, tuple(events)), 'transitions': world.loop.batches,
                'states': set(world.state_keys), 'trace': list(world.trace)}
    finally:
        rig.close()


_SEQ: dict = {}


def _seq_cache(direction, state_name, arm, ops, slow):
    key = (direction, state_name, arm, ops, slow)
    if key not in _SEQ:
        _SEQ[key] = _sequential_outcomes(direction, state_name, arm, list(ops), slow)
    return _SEQ[key]


# --- scenarios ----------------------------------------------------------------------------------------------------------

def scenarios(tier: str):
    out = []
    for direction in ('download', 'upload'):
        out.append({'kind': 'bfs', 'direction': direction, 'depth': 12 if tier == 'quick' else 16})
    n = 2
    for direction in ('download', 'upload'):
        for state in PREFIX:
            for arm in (False, True):
                for ops in itertools.combinations_with_replacement(CONC_OPS, n):
                    out.append({'kind': 'conc', 'direction': direction, 'state': state, 'arm': arm, 'ops': list(ops)})
                    out.append({'kind': 'conc', 'direction': direction, 'state': state, 'arm': arm, 'ops': list(ops),
                                'early_bind': True})
                if arm and state in ('QUEUED', 'INITIALIZING', 'TRANSFERRING', 'INCOMPLETE', 'PAUSED'):
                    for first in ('abort_req', 'pause'):
                        for second in ('fail_x', 'queue', 'complete', 'abort_req', 'pause'):
                            out.append({'kind': 'conc', 'direction': direction, 'state': state, 'arm': True,
                                        'ops': [first, second], 'cancel_first': True})
                if tier == 'thorough':
                    for ops in itertools.combinations_with_replacement(
                            ['queue', 'pause', 'abort_req', 'fail_x', 'complete', 'initialize'], 3):
                        out.append({'kind': 'conc', 'direction': direction, 'state': state, 'arm': arm,
                                    'ops': list(ops)})
    return out


def weight(params, tier):
    return 1000 if params['kind'] == 'bfs' else len(params['ops'])


def run_scenario(params: dict, tier: str) -> dict:
    if params['kind'] == 'bfs':
        return run_bfs(params['direction'], params['depth'])
    bound = 3 if len(params['ops']) == 2 else 2
    res = explore(lambda ch: run_concurrent(params, ch), bound=bound, max_exec=50000)
    return {'executions': res.executions, 'violations': res.violations, 'states': res.states,
            'transitions': res.transitions, 'outcomes': list(res.outcomes), 'nontrivial': list(res.nontrivial),
            'capped': res.capped, 'bound': res.bound_completed, 'samples': res.samples}


def replay(params: dict, choices: list, tier: str = 'quick') -> dict:
    if params['kind'] == 'bfs':
        scratch = tempfile.mkdtemp(prefix='c03-', dir=SCRATCH_ROOT)
        rig = Rig(params['direction'], scratch=scratch)
        log = []
        try:
            for op in choices:
                before = rig.projection()
                result, events = rig.run_op_sequential(op)
                log.append({'op': op, 'result': repr(result), 'events': events, 'before': before,
                            'after': rig.projection()})
            viols = check_transition(params['direction'], choices[-1], log[-1]['before'], log[-1]['after'],
                                     result, events) if choices else []
        finally:
            rig.close()
            shutil.rmtree(scratch, ignore_errors=True)
        return {'violations': [str(v) for v in viols], 'log': log}
    out = run_concurrent(params, Chooser(choices))
    return {'violations': [str(v) for v in out['violations']], 'trace': out.get('trace'), 'obs': out['obs']}
