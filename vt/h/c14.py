"""C14 — search requests flow down the tree exactly once, and are answered to the asker.

The C13 rig (full client, scripted server and peers) plus a scanned share tree
with visible and locked directories and a scripted peer for the asking user.
Enumerated: tree shapes (0..3 children, parent, candidate) x carrier (server /
distributed / legacy wrapped) x asking user (other / own name) x ticket x query,
with children joining / leaving / closing between requests.
"""
from __future__ import annotations
import itertools
import os
import shutil
import tempfile

from ..common import ERRORS
from ..world import Violation
from ..ref.shares import RefShares
from .c13 import Rig as TreeRig, PEERS, ME

from aioslsk.protocol import messages as M
from aioslsk.shares.model import DirectoryShareMode

PROPERTY = 'C14'
LEVEL = 'model_checking'
RULE = ("enumerated histories: tree shape x [request | membership change]* (<=3 quick, <=5 thorough) over carriers x "
        "users x tickets x queries; every history runs on the real DistributedNetwork / SearchManager / SharesManager; "
        "observation = frames decoded by every scripted child / parent / candidate / asker; distinct = distinct histories "
        "with distinct observations")
ASSUMPTIONS = [
    "scripted peers and server; default schedule (one request is fully processed before the next event)",
    "expected results from the C07 reference matcher and reference index (vt/ref/shares.py)",
]

SCRATCH_ROOT = '/dev/shm' if os.path.isdir('/dev/shm') else tempfile.gettempdir()
TREE = {
    'pub/song one.mp3': 'everyone', 'pub/live/long song.mp3': 'everyone', 'pub/other.txt': 'everyone',
    'fr/song secret.mp3': 'friends', 'fr/secret only.flac': 'friends',
}
ASKER = ('asker', '10.0.6.1', 7100)
CHILDREN = {'c1': ('10.0.7.1', 7201), 'c2': ('10.0.7.2', 7202), 'c3': ('10.0.7.3', 7203)}
QUERIES = {'visible': 'long song', 'locked': 'secret only', 'both': 'song', 'none': 'nomatch', 'excl': '-song',
           'wild': '*ong -secret'}
TICKETS = [0, 1, 2 ** 32 - 1]


def make_tree(base):
    for rel in TREE:
        path = os.path.join(base, rel)
        os.makedirs(os.path.dirname(path), exist_ok=True)
        with open(path, 'wb') as fh:
            fh.write(b'z' * 7)


class Rig(TreeRig):
    def __init__(self, base):
        self.base = base
        extra = {'shares': {'scan_on_start': False, 'download': '/nonexistent', 'directories': [
            {'path': os.path.join(base, 'pub'), 'share_mode': 'everyone'},
            {'path': os.path.join(base, 'fr'), 'share_mode': 'friends'},
        ]}, 'users': {'friends': ['friend']}}
        super().__init__(extra_settings=extra)
        world = self.world
        client = self.client
        slot = world.op('scan', 'scan', lambda: client.shares.scan(), record=False)
        world.run_default_until_idle()
        self.ref = RefShares()
        for name, mode in (('pub', 'everyone'), ('fr', 'friends')):
            root = os.path.join(base, name)
            self.ref.add(root, mode)
            self.ref.scan(root, [os.path.join(base, rel) for rel in TREE])
        self.asker = self.cw.peer(ASKER[0], ASKER[1], port=ASKER[2])
        # children also listen: a child (or the parent) can itself be the user who searches and must get its answer
        # over a peer connection of type P
        self.kids = {n: self.cw.peer(n, ip, port=port) for n, (ip, port) in CHILDREN.items()}
        self.kid_conns: dict = {}
        self.server.auto[M.GetPeerAddress.Request] = self._address
        self.requests: list[dict] = []
        self.closed_kids: list = []

    def _address(self, srv, msg):
        if msg.username == ASKER[0]:
            srv.send(M.GetPeerAddress.Response(msg.username, ASKER[1], ASKER[2], 0, 0))
        elif msg.username in CHILDREN:
            srv.send(M.GetPeerAddress.Response(msg.username, CHILDREN[msg.username][0], CHILDREN[msg.username][1], 0, 0))
        elif msg.username in PEERS:
            srv.send(M.GetPeerAddress.Response(msg.username, PEERS[msg.username][0], PEERS[msg.username][1], 0, 0))
        else:
            srv.send(M.GetPeerAddress.Response(msg.username, '0.0.0.0', 0, 0, 0))

    # --- events -----------------------------------------------------------------------------------------
    def apply(self, ev):
        kind = ev[0]
        if kind == 'child-join':
            pc = self.kids[ev[1]].connect_init(60000, 'D')
            self.kid_conns[ev[1]] = pc
            self.world.run_default_until_idle()
        elif kind == 'child-join2':
            # a second connection of the same user (e.g. it reconnected before the first one was torn down)
            pc = self.kids[ev[1]].connect_init(60000, 'D')
            self.kid_conns[ev[1] + '#2'] = pc
            self.world.run_default_until_idle()
        elif kind == 'child-writefail':
            # the next write to this child fails on the socket (connection reset under us)
            pc = self.kid_conns.get(ev[1])
            if pc is not None:
                lib = pc.end.conn.ends[1]
                lib.fail_writes = ConnectionResetError(104, 'reset')
        elif kind == 'child-leave':
            pc = self.kid_conns.pop(ev[1], None)
            if pc is not None:
                pc.close()
                self.closed_kids.append(pc)
            self.world.run_default_until_idle()
        elif kind == 'parent':
            super().apply(('potential', ('p1',)))
            super().apply(('level', 'p1', 1))
            super().apply(('root', 'p1', 'R'))
        elif kind == 'candidate':
            super().apply(('potential', ('p2',)))
        elif kind == 'request':
            _, carrier, user, ticket, qname = ev
            query = QUERIES[qname]
            username = ME if user == 'self' else (ASKER[0] if user == 'other' else user)
            asker_peer = self.asker if user in ('self', 'other') else (self.kids.get(user) or self.peers.get(user))
            req = {'carrier': carrier, 'user': username, 'ticket': ticket, 'query': query,
                   'server_mark': len(self.server.received),
                   'broken': [n for n, pc in self.kid_conns.items()
                              if getattr(pc.end.conn.ends[1], 'fail_writes', None) is not None],
                   # reference: every incoming distributed connection that joined and has not left is a current
                   # child (acceptance is on, the limit of 5 is never reached, none was proposed as parent)
                   'children': [n for n, pc in self.kid_conns.items() if not pc.closed and not pc.eof],
                   'mark': {n: len(pc.received) for n, pc in self.kid_conns.items()},
                   'asker_mark': len(asker_peer.received), 'asker_peer': asker_peer,
                   'undecodable_mark': len(asker_peer.undecodable)}
            if carrier == 'server':
                self.server.send(M.ServerSearchRequest.Response(3, 0x31, username, ticket, query))
            else:
                parent_pc = self._parent_pc()
                if parent_pc is None:
                    return False
                if carrier == 'dist':
                    parent_pc.send(M.DistributedSearchRequest.Request(0x31, username, ticket, query))
                else:
                    parent_pc.send(M.DistributedServerSearchRequest.Request(3, 0x31, username, ticket, query))
            self.world.run_default_until_idle()
            # the reply travels over a new peer connection: give it the iterations it needs (no clock advance)
            self.world.run_default_until_idle()
            self.requests.append(req)
            self.check_request(req)
        else:
            super().apply(ev)
        return True

    def _is_child(self, pc):
        dp = self.lib_peer(pc)
        return dp is not None and any(dp is c for c in self.dn.children)

    def _parent_pc(self):
        if self.dn.parent is None:
            return None
        for n in self.peers:
            for pc in self.peers[n].conns:
                if self.lib_peer(pc) is self.dn.parent:
                    return pc
        return None

    # --- oracle -----------------------------------------------------------------------------------------
    def check_request(self, req):
        own = req['user'] == ME
        want_fwd = [] if own else [n for n in req['children'] if n not in req.get('broken', [])]
        # children: exactly one DistributedSearchRequest with the same user / ticket / query
        for n, pc in self.kid_conns.items():
            new = [m for m in pc.received[req['mark'].get(n, 0):]
                   if isinstance(m, (M.DistributedSearchRequest.Request, M.DistributedServerSearchRequest.Request))]
            expect = 1 if n in want_fwd else 0
            same = [m for m in new if isinstance(m, M.DistributedSearchRequest.Request) and
                    (m.username, m.ticket, m.query) == (req['user'], req['ticket'], req['query'])]
            if len(new) != expect or len(same) != expect:
                what = 'own-search-forwarded' if own and new else ('forward-count' if len(new) != expect else 'forward-content')
                self.add(what, f"{req['carrier']} request user={req['user']} ticket={req['ticket']} query={req['query']!r}: "
                         f"child {n} (current child: {n in req['children']}) received {new}",
                         f"C14:{what}:{req['carrier']}")
        # parent, candidates and closed children receive nothing
        others = []
        ppc = self._parent_pc()
        for n in self.peers:
            for pc in self.peers[n].conns:
                others.append((n, pc))
        for n, pc in others:
            fw = [m for m in pc.received if isinstance(m, (M.DistributedSearchRequest.Request,
                                                           M.DistributedServerSearchRequest.Request))]
            if fw:
                self.add('forward-to-non-child', f"{n} ({'parent' if pc is ppc else 'candidate'}) received {fw}",
                         f"C14:forward-to-non-child:{'parent' if pc is ppc else 'candidate'}")
        for pc in self.closed_kids:
            pass        # a closed scripted connection cannot receive anything (the sim drops it)
        # the asker
        asker_peer = req.get('asker_peer', self.asker)
        replies = [m for _, m in asker_peer.received[req['asker_mark']:] if isinstance(m, M.PeerSearchReply.Request)]
        # a reply is a peer message: it travels over a connection of type P, never over a distributed connection
        stray = [(pc.typ, type(m).__qualname__) for pc, m in asker_peer.received[req['asker_mark']:]
                 if isinstance(m, M.PeerSearchReply.Request) and pc.typ != 'P']
        garbage = asker_peer.undecodable[req.get('undecodable_mark', 0):]
        if stray or garbage:
            self.add('reply-on-wrong-connection', f"{req['carrier']} request of {req['user']} (a tree neighbour): "
                     f"{stray or len(garbage)} non-distributed frame(s) arrived on its distributed connection",
                     'C14:reply-on-wrong-connection')
        matched = self.ref.query(req['query'])
        vis = sorted(os.path.relpath(f, self.base).split(os.sep, 1)[1].replace('/', '\\') for f in matched
                     if not self.ref.locked_for(f, req['user'], {'friend'}))
        locked = sorted(os.path.relpath(f, self.base).split(os.sep, 1)[1].replace('/', '\\') for f in matched
                        if self.ref.locked_for(f, req['user'], {'friend'}))
        if own:
            # an answer to ourselves would start with a peer-address lookup of our own name
            lookups = [m for m in self.server.received[req['server_mark']:]
                       if isinstance(m, (M.GetPeerAddress.Request, M.ConnectToPeer.Request)) and m.username == ME]
            if lookups:
                self.add('own-search-answered', f"{req['carrier']} request from our own name: the client tried to "
                         f"deliver results to itself ({lookups})", f"C14:own-search-answered:{req['carrier']}")
            if replies:
                self.add('own-search-answered', f"{req['carrier']} request from our own name was answered: {replies}",
                         f"C14:own-search-answered:{req['carrier']}")
            return
        if not vis and not locked:
            if replies:
                self.add('reply-without-match', f"query {req['query']!r}: {replies}", 'C14:reply-without-match')
            return
        if len(replies) != 1:
            self.add('reply-count', f"{req['carrier']} request ticket={req['ticket']} query={req['query']!r}: "
                     f"{len(replies)} replies reached the asker (expected visible {vis} locked {locked})",
                     f"C14:reply-count:{len(replies)}")
            return
        r = replies[0]
        got_vis = sorted(f.filename.split('\\', 1)[1] for f in r.results)
        got_locked = sorted(f.filename.split('\\', 1)[1] for f in (r.locked_results or []))
        if r.ticket != req['ticket'] or r.username != ME:
            self.add('reply-header', f"ticket {r.ticket} (asked {req['ticket']}), username {r.username!r}",
                     'C14:reply-header')
        if got_vis != vis or got_locked != locked:
            self.add('reply-content', f"query {req['query']!r}: reply visible {got_vis} locked {got_locked}, reference "
                     f"visible {vis} locked {locked}", 'C14:reply-content')


def histories(tier):
    carriers = ['server', 'dist', 'legacy']
    out = []
    shapes = []
    for nkids in range(0, 4):
        for parent in (False, True):
            for cand in (False, True):
                shape = [('child-join', f'c{i + 1}') for i in range(nkids)]
                if parent:
                    shape.append(('parent',))
                if cand:
                    shape.append(('candidate',))
                shapes.append(shape)
    reqs = []
    for carrier in carriers:
        for user in ('other', 'self'):
            for ticket in TICKETS:
                for q in QUERIES:
                    reqs.append(('request', carrier, user, ticket, q))
    for shape in shapes:
        has_parent = ('parent',) in shape
        for r in reqs:
            if r[1] != 'server' and not has_parent:
                continue
            out.append(shape + [r])
    # the searching user is one of our tree neighbours (a child / the parent)
    for shape in ([('child-join', 'c1'), ('child-join', 'c2')], [('child-join', 'c1'), ('parent',)],
                  [('child-join', 'c1'), ('child-join', 'c2'), ('parent',)]):
        has_parent = ('parent',) in shape
        for carrier in carriers:
            if carrier != 'server' and not has_parent:
                continue
            for user in ('c1', 'p1') if has_parent else ('c1',):
                for q in ('both', 'visible', 'none'):
                    out.append(shape + [('request', carrier, user, 3, q)])
    # faults and duplicate connections while forwarding
    r_srv = ('request', 'server', 'other', 5, 'both')
    r_dist = ('request', 'dist', 'other', 6, 'visible')
    three = [('child-join', 'c1'), ('child-join', 'c2'), ('child-join', 'c3')]
    for broken in ('c1', 'c2', 'c3'):
        out.append(three + [('child-writefail', broken), r_srv, r_srv])
        out.append(three + [('parent',), ('child-writefail', broken), r_dist, r_dist])
    out.append([('child-join', 'c1'), ('child-join2', 'c1'), ('child-join', 'c2'), ('child-leave', 'c1'), r_srv])
    out.append([('child-join', 'c1'), ('child-join', 'c2'), ('child-join2', 'c1'), ('child-leave', 'c1#2'), r_srv])
    out.append([('child-join', 'c1'), ('child-join2', 'c1'), r_srv, ('child-leave', 'c1'), r_srv])
    # membership changes between two requests
    changes = [('child-leave', 'c1'), ('child-join', 'c3'), ('disconnect', 'p1'), ('child-leave', 'c2')]
    base_shapes = [[('child-join', 'c1'), ('child-join', 'c2'), ('parent',)], [('child-join', 'c1'), ('child-join', 'c2')]]
    for shape in base_shapes:
        has_parent = ('parent',) in shape
        for r1 in [('request', 'server', 'other', 1, 'both'), ('request', 'dist', 'other', 2, 'visible')]:
            for ch in changes:
                for r2 in [('request', 'server', 'other', 7, 'both'), ('request', 'dist', 'other', 8, 'locked'),
                           ('request', 'legacy', 'self', 9, 'both')]:
                    if (r1[1] != 'server' or r2[1] != 'server') and not has_parent:
                        continue
                    out.append(shape + [r1, ch, r2])
                    if True:
                        for ch2 in (changes if tier != 'quick' else changes[:2]):
                            out.append(shape + [r1, ch, ch2, r2, r1])
    return out


def run_history(hist) -> dict:
    base = tempfile.mkdtemp(prefix='c14-', dir=SCRATCH_ROOT)
    try:
        make_tree(base)
        rig = Rig(base)
        try:
            for ev in hist:
                ev = tuple(tuple(x) if isinstance(x, list) else x for x in ev)
                if ev[0] in ('level', 'root', 'disconnect') and not rig.enabled(ev):
                    continue
                rig.apply(ev)
            # a queued (fire-and-forget) message whose write fails leaves its ConnectionWriteError in the task:
            # asyncio merely logs it; it is not part of this property
            unret = [u for u in rig.world.unretrieved_task_exceptions()
                     if not (u.startswith('queue-message-task') and 'ConnectionWriteError' in u)]
            if unret:
                rig.add('task-exception', unret[0], 'C14:task-exception:' + unret[0].split(':', 1)[1].strip()[:40])
            obs = tuple((r['carrier'], r['user'], r['ticket'], r['query'], tuple(r['children'])) for r in rig.requests)
            asker = tuple(repr(m)[:80] for _, m in rig.asker.received)
            return {'violations': list(rig.violations), 'obs': (obs, asker), 'transitions': rig.world.loop.batches}
        finally:
            rig.close()
    finally:
        shutil.rmtree(base, ignore_errors=True)


def scenarios(tier: str):
    hs = histories(tier)
    out = []
    chunk = 12
    for i in range(0, len(hs), chunk):
        out.append({'histories': [[list(e) for e in h] for h in hs[i:i + chunk]]})
    return out


def run_scenario(params: dict, tier: str) -> dict:
    viols, sigs = [], set()
    n = 0
    outcomes = set()
    transitions = 0
    sample = None
    for hist in params['histories']:
        out = run_history(hist)
        n += 1
        transitions += out['transitions']
        outcomes.add(hash(out['obs']))
        if sample is None:
            sample = {'history': hist, 'asker_received': list(out['obs'][1])[:2]}
        for v in out['violations']:
            if v.signature not in sigs:
                sigs.add(v.signature)
                viols.append({'clause': v.clause, 'detail': v.detail, 'signature': v.signature,
                              'choices': hist, 'deviations': []})
    return {'executions': n, 'violations': viols, 'states': len(outcomes), 'transitions': transitions,
            'outcomes': [f'h{o}' for o in outcomes], 'capped': False, 'samples': [sample]}


def replay(params: dict, choices: list, tier: str = 'quick') -> dict:
    out = run_history(choices)
    return {'violations': [str(v) for v in out['violations']], 'obs': out['obs']}
