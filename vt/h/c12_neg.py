"""C12 (transfer negotiation) — the PeerTransferReply waiter of an upload negotiation leaves no residue however
the negotiation ends (request not sendable, refused, reply time-out, abort at every boundary), and a late reply for
an abandoned negotiation completes nothing."""
from __future__ import annotations
import os
import shutil
import tempfile

from ..common import ERRORS
from ..world import Violation
from ..transferworld import TransferWorld

from aioslsk.transfer.state import TransferState
from aioslsk.protocol import messages as M

SCRATCH_ROOT = '/dev/shm' if os.path.isdir('/dev/shm') else tempfile.gettempdir()
BOB = ('bob', '10.0.9.1', 7300)


def run_negotiation(params: dict) -> dict:
    ERRORS.records.clear()
    base = tempfile.mkdtemp(prefix='c12n-', dir=SCRATCH_ROOT)
    viols, sigs = [], set()

    def add(clause, detail, sig):
        if sig not in sigs:
            sigs.add(sig)
            viols.append(Violation(clause, detail, signature=sig))
    try:
        tw = TransferWorld(base_dir=base, horizon=400.0, settings={'transfers': {'report_interval': 30.0}})
        try:
            tw.share_file('music/song.mp3', b'S' * 3000)
            bob = tw.remote(*BOB)
            mode = params['peer']
            bob.reply_mode = {'silent': 'silent', 'refuse': 'refuse'}.get(mode, 'allow')
            tw.start(scan=True)
            world, net = tw.world, tw.cw.net
            network = tw.client.network
            rp = tw.remote_path_of('music/song.mp3')
            pc = bob.ensure_p_conn()
            pc.send(M.PeerTransferQueue.Request(rp))
            world.run_default_until_idle()
            if mode == 'unreachable':
                # the queue request came in, then the peer goes away: the transfer request cannot be sent
                pc.close()
                net.routes[(BOB[1], BOB[2])] = 'refuse'
                del net.listeners[(BOB[1], BOB[2])]
            elif mode == 'hang':
                pc.close()
                net.routes[(BOB[1], BOB[2])] = 'hang'
                del net.listeners[(BOB[1], BOB[2])]
            elif mode == 'allow-noconn':
                # allows the transfer but the library cannot open the file connection
                def on_msg(pconn, msg, orig=bob._on_message):
                    orig(pconn, msg)
                    if isinstance(msg, M.PeerTransferRequest.Request):
                        net.routes[(BOB[1], BOB[2])] = 'refuse'
                        net.listeners.pop((BOB[1], BOB[2]), None)
                bob.peer.on_message = on_msg
            k = params.get('abort_at')
            if k is not None:
                k0 = world.boundaries
                world.deviations = False
                world.run(until=lambda: world.boundaries - k0 >= k)
                ups = tw.client.transfers.get_uploads()
                if ups:
                    async def do(t=ups[0]):
                        try:
                            await tw.client.transfers.abort(t)
                        except Exception:
                            pass
                    world.op('u', 'abort', do, record=False)
            world.run_default_for(200.0)
            ups = tw.client.transfers.get_uploads()
            left = [repr(f)[:160] for f in network._expected_response_futures]
            active = [u for u in ups if u.state.VALUE in (TransferState.State.INITIALIZING,)]
            reply_waiters = [f for f in network._expected_response_futures
                             if getattr(f, 'message_class', None) is M.PeerTransferReply.Request]
            if len(reply_waiters) > len(active):
                add('waiter-residue', f"{params}: {len(active)} upload negotiation(s) in progress and {len(reply_waiters)} "
                    f"waiters for a PeerTransferReply registered: {[repr(f)[:120] for f in reply_waiters[:3]]}",
                    'C12:waiter-residue:transfer-reply')
            elif left and not active:
                add('waiter-residue', f"{params}: no negotiation is in progress (uploads "
                    f"{[u.state.VALUE.name for u in ups]}) and {len(left)} expected responses are still registered: "
                    f"{left[:2]}", 'C12:waiter-residue:transfer-reply')
            # a late reply for every ticket ever offered completes nothing
            states = [(u.state.VALUE.name, u.fail_reason, u.abort_reason) for u in ups]
            connects = len(net.connect_log)
            late = bob.p_conn() or (bob.peer.connect_init(60000, 'P') if mode not in ('unreachable', 'hang') else None)
            fconns = len(bob.file_conns)
            if late is not None and not active:
                for req in bob.transfer_requests:
                    late.send(M.PeerTransferReply.Request(req.ticket, True))
                world.run_default_for(5.0)
                now = [(u.state.VALUE.name, u.fail_reason, u.abort_reason) for u in ups]
                if len(bob.file_conns) != fconns or (now != states and states and states[0][0] != 'QUEUED'):
                    add('late-reply-completes', f"{params}: replies for finished negotiations (tickets "
                        f"{[r.ticket for r in bob.transfer_requests]}) had an effect: uploads {states} -> {now}, "
                        f"file connections {fconns} -> {len(bob.file_conns)}", 'C12:late-reply-completes')
            unret = [u for u in world.unretrieved_task_exceptions() if 'queue-message-task' not in u]
            if unret:
                add('task-exception', unret[0], 'C12:task-exception:' + unret[0].split(':', 1)[1].strip()[:40])
            return {'violations': viols, 'obs': (tuple(states), len(left), len(bob.transfer_requests)),
                    'transitions': world.loop.batches}
        finally:
            tw.close()
    finally:
        shutil.rmtree(base, ignore_errors=True)


def cases(tier):
    out = []
    for peer in ('ok', 'unreachable', 'hang', 'silent', 'refuse', 'allow-noconn'):
        out.append({'peer': peer, 'abort_at': None})
        for k in range(0, 24 if tier == 'quick' else 60):
            out.append({'peer': peer, 'abort_at': k})
    return out
