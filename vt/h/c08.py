"""C08 — files are only offered and uploaded to users entitled to them.

Transfer world (real Shares / Transfer / Search / Peer / User managers) with three
scripted remote users.  (1) every configuration of share modes / friends /
blocks / excluded phrases x every request kind x every requested path variant;
(2) change histories applied while an upload is in each state, followed by the
management cycles they trigger.  Observations are the frames the scripted peers
receive and the state of the uploads.
"""
from __future__ import annotations
import itertools
import os
import shutil
import tempfile

from ..common import ERRORS
from ..world import Violation
from ..transferworld import TransferWorld
from ..ref.shares import query_matches

from aioslsk.transfer.state import TransferState
from aioslsk.transfer.model import TransferDirection
from aioslsk.shares.model import DirectoryShareMode
from aioslsk.user.model import BlockingFlag
from aioslsk.protocol import messages as M

PROPERTY = 'C08'
LEVEL = 'model_checking'
RULE = ("(1) configurations (share mode per root incl. a nested root added without rescan, friends, block flag, excluded "
        "phrase) x asking user x request kind (search, shares, directory contents, queue, transfer request) x path "
        "variant; (2) change histories (<=2 quick, <=3 thorough) over {block, unblock, befriend, unfriend, set mode, "
        "unshare, reshare, abort, queue} x upload state; distinct = distinct (configuration, request / history) cases")
ASSUMPTIONS = [
    "scripted peers; observations are the frames they decode",
    "'never served' = no upload starts after the change has been processed by a cycle (not zero bytes between the "
    "settings write and the 1 s settings poll)",
]

SCRATCH_ROOT = '/dev/shm' if os.path.isdir('/dev/shm') else tempfile.gettempdir()
USERS = {'u1': ('10.0.9.1', 7501), 'u2': ('10.0.9.2', 7502), 'u3': ('10.0.9.3', 7503)}
FILES = {'pub/song live.mp3': 'pub', 'pub/Live Set/Song Loud.mp3': 'pubcaps', 'pub/inner/song inner.mp3': 'inner',
         'pub/inner/deep/song deep.mp3': 'deep', 'fr/song friends.mp3': 'fr', 'us/song users.mp3': 'us'}


class Rig:
    def __init__(self, cfg: dict):
        self.cfg = cfg
        self.base = tempfile.mkdtemp(prefix='c08-', dir=SCRATCH_ROOT)
        share = os.path.join(self.base, 'shared')
        # every directory may carry a users list whatever its mode (the list is kept when the mode changes)
        dirs = [{'path': os.path.join(share, 'pub'), 'share_mode': cfg.get('pub', 'everyone'), 'users': cfg.get('pub_users', [])},
                {'path': os.path.join(share, 'fr'), 'share_mode': cfg.get('fr', 'friends'), 'users': cfg.get('fr_users', [])},
                {'path': os.path.join(share, 'us'), 'share_mode': cfg.get('us', 'users'), 'users': cfg.get('us_users', ['u1'])}]
        blocked = {}
        if cfg.get('block'):
            blocked = {'u2': int(BlockingFlag[cfg['block']])}
        st = {'shares': {'directories': dirs}, 'users': {'friends': list(cfg.get('friends', ['u1', 'u2'])), 'blocked': blocked},
              'transfers': {'limits': {'upload_slots': cfg.get('slots', 2)}, 'report_interval': 30.0}}
        if cfg.get('slow'):
            st['network'] = {'limits': {'upload_speed_kbps': 1}}
        self.tw = TransferWorld(base_dir=self.base, horizon=300.0, settings=st)
        tw = self.tw
        for rel in FILES:
            tw.share_file(rel, b'F' * (40000 if cfg.get('slow') else 600))
        self.remotes = {}
        for u, (ip, port) in USERS.items():
            r = tw.remote(u, ip, port)
            r._got_file_bytes = (lambda pc, info, data, r=r: info['data'].extend(data))   # keep uploads UPLOADING
            self.remotes[u] = r
        tw.start(scan=True)
        # nested roots added / removed later (items move between the directories without a rescan)
        for op in cfg.get('nest', []):
            if op[0] == 'add':
                tw.client.shares.add_shared_directory(os.path.join(share, op[1]), share_mode=DirectoryShareMode(op[2]),
                                                      users=['u1'])
            elif op[0] == 'remove':
                tw.client.shares.remove_shared_directory(os.path.join(share, op[1]))
            elif op[0] == 'scan':
                tw.world.op('scan', 'scan2', lambda: tw.client.shares.scan(), record=False)
                tw.world.run_default_for(1.5)
        if cfg.get('nest'):
            tw.world.run_default_for(1.5)
        if cfg.get('phrase') is not None:
            tw.server.send(M.ExcludedSearchPhrases.Response([cfg['phrase']]))
            tw.world.run_default_until_idle()
        self.viols: list[Violation] = []
        self.sigs: set = set()

    def add(self, clause, detail, sig):
        if sig not in self.sigs:
            self.sigs.add(sig)
            self.viols.append(Violation(clause, detail, signature=sig))

    # ---- reference -----------------------------------------------------------------------------------------
    def holder(self, rel):
        """reference: the innermost shared directory containing the file"""
        path = os.path.join(self.base, 'shared', rel)
        best = None
        for d in self.tw.client.shares.shared_directories:
            if path.startswith(d.absolute_path + os.sep):
                if best is None or len(d.absolute_path) > len(best.absolute_path):
                    best = d
        return best

    def mode_of(self, rel):
        d = self.holder(rel)
        return d.share_mode.value if d is not None else None

    def dir_obj(self, root):
        path = os.path.join(self.base, 'shared', root)
        for d in self.tw.client.shares.shared_directories:
            if d.absolute_path == path:
                return d
        return None

    def entitled(self, user, rel) -> bool:
        """reference: may this user be offered / sent this file (share mode only)"""
        d = self.holder(rel)
        if d is None:
            return False          # not shared at all
        if not os.path.exists(os.path.join(self.base, 'shared', rel)):
            return False          # vanished from disk (every 'vanish' is followed by a scan)
        mode = d.share_mode.value
        if mode == 'friends':
            return user in set(self.tw.client.settings.users.friends)
        if mode == 'users':
            return user in (d.users or [])
        return mode == 'everyone'

    def blocked(self, user, flag) -> bool:
        return self.tw.client.settings.users.is_blocked(user, flag)

    def rel_of_remote(self, remote_path):
        name = remote_path.replace('/', '\\').rstrip('\\').rsplit('\\', 1)[-1].lower()
        for rel in FILES:
            if os.path.basename(rel).lower() == name:
                return rel
        return None

    def remote_path(self, rel):
        return self.tw.remote_path_of(rel)

    def close(self):
        self.tw.close()
        shutil.rmtree(self.base, ignore_errors=True)


# ---- (1) requests ----------------------------------------------------------------------------------------------

def run_requests(cfg: dict) -> dict:
    ERRORS.records.clear()
    rig = Rig(cfg)
    tw = rig.tw
    n = 0
    try:
        phrase = cfg.get('phrase')
        for user in USERS:
            r = rig.remotes[user]
            # (a) search
            mark = len(r.peer.received)
            tw.server.send(M.ServerSearchRequest.Response(3, 0x31, user, 11, 'song'))
            tw.world.run_default_for(0.5)
            n += 1
            replies = [m for _, m in r.peer.received[mark:] if isinstance(m, M.PeerSearchReply.Request)]
            if replies and rig.blocked(user, BlockingFlag.SEARCHES):
                rig.add('search-reply-to-blocked-user', f"{cfg}: {user} is blocked for searches and got a reply",
                        'C08:search-reply-to-blocked-user')
            for rep in replies:
                for fd in rep.results:
                    rel = rig.rel_of_remote(fd.filename)
                    if rel is not None and not rig.entitled(user, rel):
                        rig.add('locked-file-offered', f"{cfg}: search reply to {user} lists {rel} as a normal result "
                                f"(mode {rig.mode_of(rel)})", f"C08:locked-file-offered:search:{FILES[rel]}")
                for fd in list(rep.results) + list(rep.locked_results or []):
                    if phrase and phrase.lower() in fd.filename.lower():
                        rig.add('excluded-phrase-returned', f"{cfg}: reply to {user} contains {fd.filename!r} although "
                                f"the server excluded the phrase {phrase!r}", 'C08:excluded-phrase-returned')
            # (b) shares request / (c) directory contents
            pc = r.ensure_p_conn()
            tw.world.run_default_until_idle()
            mark = len(r.peer.received)
            pc.send(M.PeerSharesRequest.Request())
            for rel in FILES:
                d = rig.remote_path(rel).rsplit('\\', 1)[0]
                pc.send(M.PeerDirectoryContentsRequest.Request(7, d))
            tw.world.run_default_for(0.5)
            n += 2
            for _, m in r.peer.received[mark:]:
                if isinstance(m, M.PeerSharesReply.Request):
                    if rig.blocked(user, BlockingFlag.SHARES):
                        rig.add('shares-to-blocked-user', f"{cfg}: {user}", 'C08:shares-to-blocked-user')
                    for dd in m.directories:
                        for fd in dd.files:
                            rel = rig.rel_of_remote(fd.filename)
                            if rel is not None and not rig.entitled(user, rel):
                                rig.add('locked-file-offered', f"{cfg}: shares reply to {user} lists {rel} in a normal "
                                        f"directory (mode {rig.mode_of(rel)})", f"C08:locked-file-offered:shares:{FILES[rel]}")
                elif isinstance(m, M.PeerDirectoryContentsReply.Request):
                    for dd in m.directories:
                        for fd in dd.files:
                            rel = rig.rel_of_remote(fd.filename)
                            if rel is not None and not rig.entitled(user, rel):
                                rig.add('locked-file-offered', f"{cfg}: directory contents reply to {user} lists {rel} "
                                        f"(mode {rig.mode_of(rel)})", f"C08:locked-file-offered:directory:{FILES[rel]}")
            # (d) queue requests / (e) transfer requests for every path variant
            for rel in FILES:
                rp = rig.remote_path(rel)
                variants = {'exact': rp, 'case': rp.upper(), 'doubled': rp.replace('\\', '\\\\'), 'trailing': rp + '\\',
                            'slashes': rp.replace('\\', '/')}
                for vname, path in variants.items():
                    for kind in ('queue', 'request'):
                        before = len(tw.client.transfers.get_uploads())
                        mark = len(r.peer.received)
                        if kind == 'queue':
                            pc.send(M.PeerTransferQueue.Request(path))
                        else:
                            pc.send(M.PeerTransferRequest.Request(0, 900 + n, path))
                        tw.world.run_default_for(0.3)
                        n += 1
                        ups = tw.client.transfers.get_uploads()
                        new = [u for u in ups[before:]]
                        permitted = rig.entitled(user, rel) and not rig.blocked(user, BlockingFlag.UPLOADS)
                        for up in new:
                            target = rig.rel_of_remote(up.remote_path)
                            if up.username == user and (target is None or not (rig.entitled(user, target) and
                                                                               not rig.blocked(user, BlockingFlag.UPLOADS))):
                                rig.add('upload-created', f"{cfg}: {kind} from {user} for {vname} path of {rel} created "
                                        f"an upload ({up.remote_path!r}, state {up.state.VALUE.name}) although the user "
                                        f"is not entitled / blocked", f"C08:upload-created:{kind}:{FILES[rel]}")
                        for _, m in r.peer.received[mark:]:
                            if isinstance(m, M.PeerTransferReply.Request) and m.allowed and not permitted:
                                rig.add('transfer-allowed', f"{cfg}: {user} {vname} {rel}", 'C08:transfer-allowed')
                            if isinstance(m, M.PeerTransferRequest.Request) and not permitted:
                                tgt = rig.rel_of_remote(m.filename)
                                if tgt == rel:
                                    rig.add('upload-offered', f"{cfg}: PeerTransferRequest sent to {user} for {rel}",
                                            f"C08:upload-offered:{FILES[rel]}")
            # whatever was started: bytes on file connections only for permitted uploads
            tw.world.run_default_for(2.0)
            for info in r.received_files.values():
                rel = rig.rel_of_remote(info.get('path') or '')
                if rel is not None and len(info['data']) > 0 and not (
                        rig.entitled(user, rel) and not rig.blocked(user, BlockingFlag.UPLOADS)):
                    rig.add('bytes-served', f"{cfg}: {len(info['data'])} bytes of {rel} sent to {user}",
                            f"C08:bytes-served:{FILES[rel]}")
        unret = [u for u in tw.world.unretrieved_task_exceptions() if 'queue-message-task' not in u]
        if unret:
            rig.add('task-exception', unret[0], 'C08:task-exception:' + unret[0].split(':', 1)[1].strip()[:40])
        return {'violations': list(rig.viols), 'n': n, 'transitions': tw.world.loop.batches}
    finally:
        rig.close()


def configurations(tier):
    out = []
    modes = ['everyone', 'friends', 'users']
    for pub, fr in itertools.product(modes, repeat=2):
        for friends in (['u1', 'u2'], ['u1'], []):
            for block in (None, 'UPLOADS', 'SEARCHES', 'ALL'):
                if tier == 'quick' and block in ('SEARCHES',) and pub != 'everyone':
                    continue
                out.append({'pub': pub, 'fr': fr, 'friends': friends, 'block': block})
    inner, deep = os.path.join('pub', 'inner'), os.path.join('pub', 'inner', 'deep')
    nests = []
    for m in ('friends', 'users'):
        nests.append([('add', inner, m)])
        nests.append([('add', inner, m), ('scan',)])
        nests.append([('add', inner, m), ('scan',), ('remove', inner)])
    nests.append([('add', inner, 'friends'), ('add', deep, 'users'), ('scan',)])
    nests.append([('add', inner, 'friends'), ('add', deep, 'users'), ('scan',), ('remove', deep)])
    nests.append([('add', inner, 'friends'), ('add', deep, 'users'), ('scan',), ('remove', inner)])
    nests.append([('add', deep, 'users'), ('add', inner, 'friends')])
    nests.append([('add', deep, 'users'), ('add', inner, 'friends'), ('remove', deep)])
    nests.append([('add', deep, 'friends'), ('scan',), ('add', inner, 'users'), ('remove', inner)])
    for nest in nests:
        for friends in (['u1', 'u2'], ['u1']):
            out.append({'pub': 'everyone', 'fr': 'friends', 'friends': friends, 'block': None, 'nest': [list(o) for o in nest]})
    # a users list left on a directory that is shared with friends / everyone; a friend missing from a users list
    for us_mode in ('friends', 'everyone', 'users'):
        for us_users in (['u3'], ['u1', 'u3'], []):
            for friends in (['u1', 'u2'], ['u1']):
                out.append({'pub': 'everyone', 'fr': 'friends', 'us': us_mode, 'us_users': us_users, 'fr_users': ['u3'],
                            'friends': friends, 'block': None})
    for phrase in ('friends', 'FRIENDS', 'users.mp3', 'song'):        # phrases that hit files locked for the asker
        for friends in (['u1', 'u2'], ['u1'], []):
            out.append({'pub': 'everyone', 'fr': 'friends', 'friends': friends, 'block': None, 'phrase': phrase})
    for phrase in ('live', 'LIVE', 'Li', 'SONG L', 'live set', 'Loud'):
        out.append({'pub': 'everyone', 'fr': 'friends', 'friends': ['u1', 'u2'], 'block': None, 'phrase': phrase})
    return out


# ---- (2) change histories on an existing upload ----------------------------------------------------------------------

CHANGES = ['block', 'unblock', 'unfriend', 'befriend', 'mode-everyone', 'mode-users', 'mode-friends', 'unshare',
           'reshare', 'vanish', 'reappear', 'abort', 'queue']
STATES = ['QUEUED', 'INITIALIZING', 'UPLOADING', 'PAUSED', 'ABORTED-Requested', 'ABORTED-Blocked']


def run_changes(state: str, changes: list) -> dict:
    ERRORS.records.clear()
    cfg = {'pub': 'everyone', 'fr': 'friends', 'friends': ['u1', 'u2'], 'block': None,
           'slots': 0 if state == 'QUEUED' else 2, 'slow': True}
    rig = Rig(cfg)
    tw = rig.tw
    try:
        r = rig.remotes['u2']
        if state == 'INITIALIZING':
            r.reply_mode = 'silent'
        rel = 'fr/song friends.mp3'
        rp = rig.remote_path(rel)
        pc = r.ensure_p_conn()
        pc.send(M.PeerTransferQueue.Request(rp))
        tw.world.run_default_for(1.0)
        ups = tw.client.transfers.get_uploads()
        if not ups:
            rig.add('setup-no-upload', f"{state}: queue request created no upload", 'C08:harness-setup')
            return {'violations': list(rig.viols), 'n': 1, 'transitions': tw.world.loop.batches}
        up = ups[0]
        settings = tw.client.settings

        def run_op(coro_fn):
            tw.world.op('u', 'op', coro_fn, record=False)
            tw.world.run_default_until_idle()

        outcome = {}

        async def guarded(fn):
            outcome['ok'] = False
            try:
                await fn()
            except Exception:
                pass
            else:
                outcome['ok'] = True
        if state == 'PAUSED':
            run_op(lambda: guarded(lambda: tw.client.transfers.pause(up)))
        elif state == 'ABORTED-Requested':
            run_op(lambda: guarded(lambda: tw.client.transfers.abort(up)))
        elif state == 'ABORTED-Blocked':
            settings.users.blocked = {'u2': BlockingFlag.UPLOADS}
            tw.world.run_default_for(2.5)
        want_state = state.split('-')[0]
        if up.state.VALUE.name != want_state:
            # the starting state could not be reached in this set-up (e.g. the upload already moved on)
            return {'violations': list(rig.viols), 'n': 1, 'transitions': tw.world.loop.batches, 'skipped': True}
        requested_abort = state == 'ABORTED-Requested'
        share_fr = os.path.join(rig.base, 'shared', 'fr')
        fpath = os.path.join(rig.base, 'shared', rel)
        for ch in changes:
            if ch == 'block':
                settings.users.blocked = {'u2': BlockingFlag.UPLOADS}
            elif ch == 'unblock':
                settings.users.blocked = {}
            elif ch == 'unfriend':
                settings.users.friends = {'u1'}
            elif ch == 'befriend':
                settings.users.friends = {'u1', 'u2'}
            elif ch.startswith('mode-'):
                d = rig.dir_obj('fr')
                if d is not None:
                    tw.client.shares.update_shared_directory(d, share_mode=DirectoryShareMode(ch[5:]), users=['u1'])
            elif ch == 'unshare':
                d = rig.dir_obj('fr')
                if d is not None:
                    tw.client.shares.remove_shared_directory(d)
            elif ch == 'reshare':
                if rig.dir_obj('fr') is None:
                    tw.client.shares.add_shared_directory(share_fr, share_mode=DirectoryShareMode.FRIENDS)
                    run_op(lambda: tw.client.shares.scan())
            elif ch == 'vanish':
                if os.path.exists(fpath):
                    os.rename(fpath, fpath + '.gone')
                run_op(lambda: tw.client.shares.scan())
            elif ch == 'reappear':
                if os.path.exists(fpath + '.gone'):
                    os.rename(fpath + '.gone', fpath)
                run_op(lambda: tw.client.shares.scan())
            elif ch == 'abort':
                run_op(lambda: guarded(lambda: tw.client.transfers.abort(up)))
                if outcome.get('ok'):
                    requested_abort = True
            elif ch == 'queue':
                run_op(lambda: guarded(lambda: tw.client.transfers.queue(up)))
                if outcome.get('ok'):
                    # the user took the abort back (whatever the library decides about the upload afterwards)
                    requested_abort = False
            # the settings poll (1 s) and the management cycle it triggers
            tw.world.run_default_for(2.5)
            permitted = rig.entitled('u2', rel) and not rig.blocked('u2', BlockingFlag.UPLOADS)
            st = up.state.VALUE
            label = f"upload in {state}, changes {changes[:changes.index(ch) + 1]}"
            if not permitted or requested_abort:
                got = sum(len(i['data']) for i in r.received_files.values())
                tw.world.run_default_for(3.0)
                got2 = sum(len(i['data']) for i in r.received_files.values())
                if got2 > got:
                    rig.add('bytes-served', f"{label}: {got2 - got} more bytes were sent after the change was processed",
                            f"C08:bytes-served-after:{ch}")
                st = up.state.VALUE
            if st in (TransferState.State.COMPLETE, TransferState.State.FAILED):
                continue
            if not permitted:
                want_reason = 'Blocked' if rig.blocked('u2', BlockingFlag.UPLOADS) else 'File not shared'
                if st != TransferState.State.ABORTED:
                    rig.add('not-aborted', f"{label}: the upload is no longer permitted ({want_reason}) but is "
                            f"{st.name}", f"C08:not-aborted:{st.name}:{ch}")
                elif not requested_abort and up.abort_reason != want_reason:
                    rig.add('abort-reason', f"{label}: aborted with reason {up.abort_reason!r}, expected {want_reason!r}",
                            f"C08:abort-reason:{up.abort_reason}")
            else:
                if st == TransferState.State.ABORTED:
                    if requested_abort:
                        if up.abort_reason != 'Requested':
                            rig.add('requested-abort-lost', f"{label}: reason {up.abort_reason!r}", 'C08:requested-abort-lost')
                    else:
                        rig.add('not-requeued', f"{label}: permitted again but still ABORTED ({up.abort_reason!r})",
                                f"C08:not-requeued:{ch}")
                elif requested_abort and st != TransferState.State.ABORTED:
                    rig.add('requested-abort-undone', f"{label}: the user's abort was undone, state {st.name}",
                            f"C08:requested-abort-undone:{ch}")
        return {'violations': list(rig.viols), 'n': 1, 'transitions': tw.world.loop.batches,
                'obs': (up.state.VALUE.name, up.abort_reason)}
    finally:
        rig.close()


def run_concurrent(k: int, second: str) -> dict:
    """two uploads; change A (block u2, picked up by the settings poll) and change B for the other upload applied k
    iteration boundaries later, i.e. also while the cycle that processes A is suspended in an await"""
    ERRORS.records.clear()
    cfg = {'pub': 'everyone', 'fr': 'friends', 'friends': ['u1', 'u2'], 'block': None, 'slots': 2, 'slow': True}
    rig = Rig(cfg)
    tw = rig.tw
    try:
        for user, rel in (('u2', 'fr/song friends.mp3'), ('u3', 'pub/song live.mp3')):
            pc = rig.remotes[user].ensure_p_conn()
            pc.send(M.PeerTransferQueue.Request(rig.remote_path(rel)))
        tw.world.run_default_for(1.3)
        ups = {u.username: u for u in tw.client.transfers.get_uploads()}
        if set(ups) != {'u2', 'u3'}:
            rig.add('setup', f"uploads {list(ups)}", 'C08:harness-setup')
            return {'violations': list(rig.viols), 'n': 1, 'transitions': tw.world.loop.batches}
        from aioslsk.events import BlockListChangedEvent
        seen = []
        rig.on_block_event = lambda ev: seen.append(tw.world.boundaries)     # bound method kept alive by the rig
        tw.client.events.register(BlockListChangedEvent, rig.on_block_event)
        tw.client.settings.users.blocked = {'u2': BlockingFlag.UPLOADS}
        tw.world.deviations = False
        # B lands k boundaries after the library noticed A (the cycle processing A is in progress)
        tw.world.run(until=lambda: bool(seen) and tw.world.boundaries - seen[0] >= k)
        t_b = tw.world.now()
        if second == 'mode':
            tw.client.shares.update_shared_directory(rig.dir_obj('pub'), share_mode=DirectoryShareMode.FRIENDS)
            want_b = 'File not shared'
        elif second == 'unshare':
            tw.client.shares.remove_shared_directory(rig.dir_obj('pub'))
            want_b = 'File not shared'
        tw.world.run_default_for(4.0)
        label = f"block u2, then {second} {k} boundaries later (t={t_b:.2f})"
        for user, want in (('u2', 'Blocked'), ('u3', want_b)):
            up = ups[user]
            if up.state.VALUE != TransferState.State.ABORTED:
                rig.add('not-aborted', f"{label}: upload to {user} is {up.state.VALUE.name}, expected ABORTED ({want})",
                        f"C08:not-aborted:concurrent:{user}")
            elif up.abort_reason != want:
                rig.add('abort-reason', f"{label}: upload to {user} aborted with {up.abort_reason!r}, expected {want!r}",
                        f"C08:abort-reason:concurrent:{up.abort_reason}")
        return {'violations': list(rig.viols), 'n': 1, 'transitions': tw.world.loop.batches,
                'obs': tuple((u, ups[u].state.VALUE.name, ups[u].abort_reason) for u in sorted(ups)) + (round(t_b, 2),)}
    finally:
        rig.close()


def change_histories(tier):
    out = []
    maxlen = 2 if tier == 'quick' else 3
    for state in STATES:
        for n in range(1, maxlen + 1):
            for seq in itertools.product(CHANGES, repeat=n):
                if n == maxlen and tier == 'quick' and seq[0] in ('mode-friends', 'befriend', 'unblock', 'reshare', 'reappear', 'queue'):
                    continue       # no-ops as first change from the initial configuration
                out.append((state, list(seq)))
    return out


def scenarios(tier: str):
    out = []
    cfgs = configurations(tier)
    for i in range(0, len(cfgs), 2):
        out.append({'kind': 'requests', 'cfgs': cfgs[i:i + 2]})
    hs = change_histories(tier)
    for i in range(0, len(hs), 20):
        out.append({'kind': 'changes', 'hists': hs[i:i + 20]})
    conc = [[k, second] for second in ('mode', 'unshare') for k in range(0, 16 if tier == 'quick' else 40)]
    for i in range(0, len(conc), 16):
        out.append({'kind': 'concurrent', 'cases': conc[i:i + 16]})
    return out


def weight(params, tier):
    return 5 if params['kind'] == 'requests' else (1 if params['kind'] == 'concurrent' else 3)


def run_scenario(params: dict, tier: str) -> dict:
    viols, sigs = [], set()
    n = 0
    outcomes = set()
    transitions = 0
    sample = None
    items = params.get('cfgs') or params.get('hists') or params.get('cases')
    for item in items:
        if params['kind'] == 'requests':
            out = run_requests(item)
        elif params['kind'] == 'concurrent':
            out = run_concurrent(item[0], item[1])
        else:
            out = run_changes(item[0], item[1])
        n += out['n']
        transitions += out['transitions']
        outcomes.add(repr((item, out.get('obs'))))
        if sample is None:
            sample = {'case': item}
        for v in out['violations']:
            if v.signature not in sigs:
                sigs.add(v.signature)
                viols.append({'clause': v.clause, 'detail': v.detail, 'signature': v.signature, 'choices': [],
                              'deviations': [], 'case': item})
    return {'executions': n, 'violations': viols, 'states': len(outcomes), 'transitions': transitions,
            'outcomes': [str(hash(o)) for o in outcomes], 'capped': False, 'samples': [sample]}


def replay(params: dict, choices: list, tier: str = 'quick') -> dict:
    return {'violations': run_scenario(params, tier)['violations']}
