"""C13 — distributed tree: one parent, bounded live children, truthful advertised place.

A full ``SoulSeekClient`` (real ``DistributedNetwork`` + ``Network``) in the sim
world with scripted peers and server.  BFS over event histories (each event
applied, then the world run to quiescence under the default schedule) with
canonical-state deduplication; the invariants and the truthfulness of the last
advertised position (as decoded by the scripted server and children) are
checked in every state.  Thorough adds one schedule deviation per history.
"""
from __future__ import annotations
import itertools

from ..common import ERRORS
from ..world import Violation
from ..clientworld import ClientWorld
from ..bfs import bfs
from ..explore import Chooser, explore

from aioslsk.network.connection import ConnectionState
from aioslsk.protocol import messages as M
from aioslsk.protocol.primitives import PotentialParent, UserStats

PROPERTY = 'C13'
LEVEL = 'model_checking'
RULE = ("BFS over histories of distributed-network events (potential parents, incoming connections, branch level / "
        "root announcements, disconnects, speed / ratio updates, reset) on the real DistributedNetwork; canonical "
        "state = tree + per-peer announced values + what the server and each child were last told; distinct = "
        "distinct canonical states")
ASSUMPTIONS = [
    "scripted peers and server; each event is followed by quiescence under the default schedule (thorough adds one "
    "schedule deviation per history)",
    "a peer announcing our own name as branch root describes a cycle and is outside the alphabet",
    "truthfulness is not evaluated without a session",
]

ME = 'me'
PEERS = {'p1': ('10.0.5.1', 7001), 'p2': ('10.0.5.2', 7002), 'p3': ('10.0.5.3', 7003)}
UNREACHABLE = {'p9': ('10.0.5.9', 7009)}     # proposed as potential parent, refuses connections, may connect in
SPEEDS = {'low': 0, 'one': 5120, 'many': 51200}


class Rig:
    def __init__(self, chooser=None, deviations=False, shares=None, extra_settings=None):
        settings = {'debug': {'search_for_parent': True}, 'network': {'peer': {'connect_mode': 'fallback'}}}
        if extra_settings:
            settings.update(extra_settings)
        self.cw = ClientWorld(chooser=chooser, horizon=40.0, deviations=False, settings=settings)
        self.world = self.cw.world
        self.server = self.cw.server
        self.client = self.cw.client
        self.dn = self.client.distributed_network
        self.speed = SPEEDS['many']
        self.server.auto[M.GetUserStats.Request] = self._on_stats_request
        self.cw.start()
        self.want_deviations = deviations
        self.peers = {}
        self.sent_by_peer: dict = {}        # id(peer conn) -> {'level':..,'root':..}
        for name, (ip, port) in PEERS.items():
            self.peers[name] = self.cw.peer(name, ip, port=port)
        for name, (ip, port) in UNREACHABLE.items():
            self.peers[name] = self.cw.peer(name, ip, port=port, listen=False)
        self.violations: list[Violation] = []
        self.sigs: set = set()
        self.session_lost = False
        self.proposed: list[str] = []        # what the server proposed as potential parents (most recent 20)
        self.stall_incoming = False

    def _on_stats_request(self, srv, msg):
        if msg.username == ME:
            srv.send(M.GetUserStats.Response(ME, UserStats(self.speed, 1, 10, 2)))

    def add(self, clause, detail, sig):
        if sig not in self.sigs:
            self.sigs.add(sig)
            self.violations.append(Violation(clause, detail, signature=sig))

    # --- helpers ---------------------------------------------------------------------------------------
    def open_conns(self, name):
        return [pc for pc in self.peers[name].conns if pc.typ == 'D' and not pc.closed and not pc.eof]

    def lib_peer(self, pc):
        for dp in self.dn.distributed_peers:
            w = dp.connection._writer
            if w is not None and getattr(w.transport, 'conn', None) is pc.end.conn:
                return dp
        return None

    def enabled(self, ev) -> bool:
        kind = ev[0]
        if kind in ('level', 'root', 'disconnect'):
            return bool(self.open_conns(ev[1]))
        if kind in ('search-parent', 'search-parent-legacy'):
            return self.dn.parent is not None
        return True

    def apply(self, ev):
        kind = ev[0]
        srv = self.server
        if kind == 'potential':
            self.proposed = (self.proposed + list(ev[1]))[-20:]
            srv.send(M.PotentialParents.Response(
                [PotentialParent(n, *(PEERS.get(n) or UNREACHABLE[n])) for n in ev[1]]))
        elif kind == 'incoming':
            self.peers[ev[1]].connect_init(60000, 'D')
        elif kind == 'level':
            for pc in self.open_conns(ev[1])[-1:]:
                pc.send(M.DistributedBranchLevel.Request(ev[2]))
                st = self.sent_by_peer.setdefault(id(pc), {})
                st['level'] = ev[2]
                if ev[2] == 0:
                    st['root'] = ev[1]      # level 0: the sender is the root (documented)
        elif kind == 'root':
            for pc in self.open_conns(ev[1])[-1:]:
                root = ev[1] if ev[2] == 'self' else ev[2]
                pc.send(M.DistributedBranchRoot.Request(root))
                self.sent_by_peer.setdefault(id(pc), {})['root'] = root
        elif kind == 'disconnect':
            for pc in self.open_conns(ev[1]):
                pc.close()
        elif kind == 'stats':
            self.speed = SPEEDS[ev[1]]
            srv.send(M.GetUserStats.Response(ME, UserStats(self.speed, 1, 10, 2)))
        elif kind == 'minspeed':
            srv.send(M.ParentMinSpeed.Response(ev[1]))
        elif kind == 'ratio':
            srv.send(M.ParentSpeedRatio.Response(ev[1]))
        elif kind == 'reset':
            srv.send(M.ResetDistributed.Response())
        else:
            raise KeyError(kind)
        self.world.run_default_until_idle()

    # --- observation -------------------------------------------------------------------------------------
    def snapshot(self):
        dn = self.dn
        return {
            'children': [c.username for c in dn.children],
            'accept': dn._accept_children, 'max': dn._max_children,
            'potential': list(self.proposed),
            'parent': dn.parent.username if dn.parent else None,
        }

    def told_server(self):
        level = root = toggle = None
        for m in self.server.received:
            if isinstance(m, M.BranchLevel.Request):
                level = m.level
            elif isinstance(m, M.BranchRoot.Request):
                root = m.username
            elif isinstance(m, M.ToggleParentSearch.Request):
                toggle = m.enable
        return level, root, toggle

    def told_child(self, pc):
        level = root = None
        for m in pc.received:
            if isinstance(m, M.DistributedBranchLevel.Request):
                level = m.level
                if m.level == 0:
                    root = ME          # level 0 implies root = sender
            elif isinstance(m, M.DistributedBranchRoot.Request):
                root = m.username
        return level, root

    def check(self, before, ev):
        dn = self.dn
        ev = ev if ev is not None else ('initial-history',)
        # one parent, not among the children
        if dn.parent is not None and any(c is dn.parent or c.username == dn.parent.username for c in dn.children):
            self.add('parent-is-child', f"after {ev}: parent {dn.parent.username} is also in children "
                     f"{[c.username for c in dn.children]}", 'C13:parent-is-child')
        # parent and children are live distributed connections known to the module
        for role, peers in (('parent', [dn.parent] if dn.parent else []), ('child', dn.children)):
            for p in peers:
                if not any(p is q for q in dn.distributed_peers):
                    self.add('not-registered', f"after {ev}: {role} {p.username} not in distributed_peers",
                             f'C13:{role}-not-registered')
                c = p.connection
                if c.state != ConnectionState.CONNECTED or c.connection_type != 'D':
                    self.add('dead-connection', f"after {ev}: {role} {p.username} connection {c.state.name}",
                             f'C13:{role}-dead-connection')
        names = [c.username for c in dn.children]
        # admission rule for children that appeared with this event
        if before is not None:
            new = [n for n in names if n not in before['children']]
            for n in new:
                if not before['accept'] and ev[0] != 'stats':
                    self.add('child-while-not-accepting', f"after {ev}: {n} admitted although acceptance was off",
                             'C13:child-while-not-accepting')
                if len(before['children']) >= before['max'] and ev[0] != 'stats':
                    self.add('too-many-children', f"after {ev}: {n} admitted with {len(before['children'])} children "
                             f"and a maximum of {before['max']}", 'C13:too-many-children')
                if n in before['potential']:
                    self.add('potential-parent-as-child', f"after {ev}: {n} was proposed as potential parent",
                             'C13:potential-parent-as-child')
        if len(names) > max(dn._max_children, 0) and before is not None and len(names) > len(before['children']):
            self.add('too-many-children', f"after {ev}: {len(names)} children, maximum {dn._max_children}",
                     'C13:too-many-children')
        # truthful position
        if self.client.session is not None:
            if dn.parent is not None:
                ppc = [pc for n in self.peers for pc in self.peers[n].conns
                       if self.lib_peer(pc) is dn.parent]
                sent = self.sent_by_peer.get(id(ppc[0]), {}) if ppc else {}
                if 'level' in sent and 'root' in sent:
                    want = (sent['level'] + 1, sent['root'], False)
                else:
                    want = None
                    self.add('parent-without-values', f"after {ev}: parent {dn.parent.username} never announced "
                             f"both level and root ({sent})", 'C13:parent-without-values')
            else:
                want = (0, ME, True)
            if want is not None:
                got = self.told_server()
                if got != want:
                    self.add('server-misinformed', f"after {ev}: server was last told (level, root, search) = {got}, "
                             f"the position is {want}", f"C13:server-misinformed:{ev[0]}")
                for c in dn.children:
                    pcs = [pc for n in self.peers for pc in self.peers[n].conns if self.lib_peer(pc) is c]
                    if not pcs:
                        continue
                    told = self.told_child(pcs[0])
                    if told != want[:2]:
                        self.add('child-misinformed', f"after {ev}: child {c.username} was last told {told}, the "
                                 f"position is {want[:2]}", f"C13:child-misinformed:{ev[0]}")
        unret = self.world.unretrieved_task_exceptions()
        if unret:
            self.add('task-exception', unret[0], 'C13:task-exception:' + unret[0].split(':', 1)[1].strip()[:40])
        if self.world.loop_errors():
            self.add('loop-error', self.world.loop_errors()[0], 'C13:loop-error')

    def canon(self):
        dn = self.dn
        peers = []
        for name in sorted(self.peers):
            conns = []
            for pc in self.open_conns(name):
                dp = self.lib_peer(pc)
                sent = self.sent_by_peer.get(id(pc), {})
                role = 'none'
                if dp is not None:
                    role = ('parent' if dp is dn.parent else '') + ('child' if any(dp is c for c in dn.children) else '')
                    role = role or 'peer'
                conns.append((pc.incoming, role, sent.get('level'), sent.get('root'),
                              self.told_child(pc), dp.branch_level if dp else None, dp.branch_root if dp else None))
            peers.append((name, tuple(sorted(conns, key=repr))))
        return (tuple(peers), dn._accept_children, dn._max_children, tuple(dn.potential_parents),
                dn.parent_min_speed, dn.parent_speed_ratio, self.told_server(), self.speed,
                len(dn._potential_parent_tasks))

    def close(self):
        self.cw.close()


def alphabet(peers, tier):
    evs = []
    names = list(peers)
    evs.append(('potential', (names[0],)))
    evs.append(('potential', tuple(names[:2])))
    if len(names) > 2:
        evs.append(('potential', (names[2],)))
    for n in names:
        evs.append(('incoming', n))
        for lvl in (0, 1, 5):
            evs.append(('level', n, lvl))
        for r in ('R', 'R2', 'self'):
            evs.append(('root', n, r))
        evs.append(('disconnect', n))
    evs.append(('potential', ('p9',)))
    evs.append(('incoming', 'p9'))
    for s in ('low', 'one', 'many'):
        evs.append(('stats', s))
    evs.append(('minspeed', 10))
    evs.append(('ratio', 10))
    evs.append(('reset',))
    return evs


def run_bfs(peers, max_depth, first=None, tier='quick', max_states=None) -> dict:
    evs = alphabet(peers, tier)
    execs = [0]

    def apply(hist, ev):
        rig = Rig()
        execs[0] += 1
        try:
            before = None
            for h in hist:
                if rig.enabled(h):
                    rig.apply(h)
            if ev is not None:
                if not rig.enabled(ev):
                    return ('disabled',), [], None
                before = rig.snapshot()
                rig.apply(ev)
            rig.check(before, ev)
            return rig.canon(), list(rig.violations), None
        finally:
            rig.close()

    initial = [()] if first is None else [(first,)]
    res = bfs(initial, lambda hist, info: evs, apply, max_depth=max_depth, max_states=max_states)
    return {'executions': execs[0], 'violations': res.violations, 'states': res.states,
            'transitions': res.transitions, 'outcomes': [f'{len(peers)}:{first}:{o}' for o in res.outcomes],
            'capped': False, 'samples': res.samples[:1] or [[str(evs[0])]],
            'extra': {'bfs_closed': int(res.closed), 'bfs_max_depth': res.max_depth}}


def _stall_accepts(rig):
    """accepted sockets start with a full send buffer (slow peer): writes to them block until the environment
    resumes them"""
    from ..world import EnvEvent

    def on_accept(conn, transport):
        proto = transport.get_protocol()
        proto.pause_writing()
        rig.world.post(EnvEvent('resume', f'resume:{conn.label}', proto.resume_writing, chan=None, holdable=False))
    rig.cw.net.on_accept = on_accept


def _stall_server(rig):
    """the server socket's send buffer is full: sends to the server block until the environment resumes it"""
    from ..world import EnvEvent
    w = rig.cw.client.network.server_connection._writer
    proto = w.transport.get_protocol()
    proto.pause_writing()
    return lambda: rig.world.post(EnvEvent('resume', 'resume:server', proto.resume_writing, chan=None, holdable=False))


def run_deviation(hist, chooser, burst=2, stall=False, srvstall=False) -> dict:
    """the last ``burst`` events of the history happen at once (no quiescence in between) and the explorer's
    schedule deviations order their deliveries, the sends they trigger and the handlers"""
    rig = Rig(chooser=chooser)
    try:
        head, tail = hist[:-burst], hist[-burst:]
        for h in head:
            if rig.enabled(h):
                rig.apply(h)
        before = rig.snapshot()
        if stall:
            _stall_accepts(rig)
        resume_server = _stall_server(rig) if srvstall else None
        orig = rig.world.run_default_until_idle
        rig.world.run_default_until_idle = lambda: None        # inject the burst without running the loop
        try:
            for h in tail:
                if rig.enabled(h):
                    rig.apply(h)
        finally:
            rig.world.run_default_until_idle = orig
        if resume_server is not None:
            resume_server()         # the buffer drains after the burst was delivered (or wherever the explorer puts it)
        rig.world.deviations = True
        rig.world.run(until=lambda: not rig.world.loop.has_ready() and not rig.world.releasable())
        rig.world.deviations = False
        for pe in rig.world.pending:          # withheld frames arrive now: the check is about the settled tree
            pe.held = pe.lost = False
        rig.world.run_default_until_idle()
        rig.check(None, ('burst',) + tuple(h[0] for h in tail))
        dn = rig.dn
        # (when the limit itself changes inside the burst the order of that change and the joins is the schedule's:
        # children accepted under the old limit are legitimate)
        if len(dn.children) > max(dn._max_children, 0) and len(dn.children) > len(before['children']) \
                and not any(h[0] == 'stats' for h in tail):
            rig.add('too-many-children', f"burst {tail}: {len(dn.children)} children, maximum {dn._max_children}",
                    'C13:too-many-children')
        return {'violations': list(rig.violations), 'obs': rig.canon(), 'transitions': rig.world.loop.batches,
                'trace': list(rig.world.trace)}
    finally:
        rig.close()


BURSTS = [
    [('stats', 'one'), ('incoming', 'p2'), ('incoming', 'p3')],
    [('stats', 'one'), ('incoming', 'p2'), ('disconnect', 'p2')],
    [('potential', ('p1',)), ('level', 'p1', 1), ('root', 'p1', 'R'), ('incoming', 'p2'), ('level', 'p1', 5)],
    [('potential', ('p1',)), ('level', 'p1', 1), ('root', 'p1', 'R'), ('incoming', 'p2'), ('disconnect', 'p1')],
    [('incoming', 'p2'), ('potential', ('p1',)), ('level', 'p1', 1), ('root', 'p1', 'R')],
    [('potential', ('p1', 'p2')), ('level', 'p1', 1), ('root', 'p1', 'R'), ('level', 'p2', 0)],
    [('incoming', 'p2'), ('incoming', 'p3'), ('reset',), ('incoming', 'p1')],
    [('potential', ('p1',)), ('root', 'p1', 'R'), ('level', 'p1', 1), ('level', 'p1', 0)],
    # the attempt to another proposed parent is still pending when the first candidate completes and is lost
    [('potential', ('p1', 'p9')), ('level', 'p1', 1), ('root', 'p1', 'R'), ('disconnect', 'p1')],
    [('potential', ('p9', 'p1')), ('root', 'p1', 'R'), ('level', 'p1', 1), ('disconnect', 'p1')],
    [('incoming', 'p2'), ('potential', ('p1', 'p9')), ('level', 'p1', 1), ('root', 'p1', 'R'), ('disconnect', 'p1')],
    [('potential', ('p1', 'p9')), ('level', 'p1', 1), ('root', 'p1', 'R'), ('level', 'p1', 4)],
]


# the send to the server blocks while the second event of the burst is handled
SRV_STALL = [
    [('incoming', 'p2'), ('potential', ('p1',)), ('level', 'p1', 1), ('root', 'p1', 'R'), ('disconnect', 'p1')],
    [('incoming', 'p2'), ('potential', ('p1',)), ('level', 'p1', 1), ('root', 'p1', 'R'), ('level', 'p1', 5)],
    [('incoming', 'p2'), ('potential', ('p1',)), ('level', 'p1', 1), ('root', 'p1', 'R'), ('root', 'p1', 'Q')],
    [('incoming', 'p2'), ('potential', ('p1',)), ('root', 'p1', 'R'), ('level', 'p1', 1), ('level', 'p1', 0)],
    [('potential', ('p1',)), ('level', 'p1', 1), ('root', 'p1', 'R'), ('incoming', 'p2'), ('disconnect', 'p1')],
    [('incoming', 'p2'), ('potential', ('p1',)), ('level', 'p1', 1), ('root', 'p1', 'R'), ('level', 'p1', 5), ('disconnect', 'p1')],
]


def scenarios(tier: str):
    out = []
    two = ['p1', 'p2']
    three = ['p1', 'p2', 'p3']
    for ev in alphabet(two, tier):
        # measured: depth 4 is ~40 000 executions / 270 s per first event (26 of them), depth 5 did not finish one
        # first event in 10 minutes
        out.append({'kind': 'bfs', 'peers': two, 'depth': 3 if tier == 'quick' else 4, 'first': list(ev)})
    for ev in alphabet(three, tier):
        out.append({'kind': 'bfs', 'peers': three, 'depth': 2 if tier == 'quick' else 3, 'first': list(ev)})
    seeds = [
        [('potential', ('p1',)), ('level', 'p1', 1), ('root', 'p1', 'R'), ('incoming', 'p2'), ('level', 'p1', 5)],
        [('potential', ('p1',)), ('level', 'p1', 1), ('root', 'p1', 'R'), ('incoming', 'p2'), ('disconnect', 'p1')],
        [('incoming', 'p2'), ('incoming', 'p3'), ('potential', ('p1',)), ('root', 'p1', 'R'), ('level', 'p1', 1)],
        [('stats', 'one'), ('incoming', 'p2'), ('incoming', 'p3'), ('stats', 'many')],
        [('incoming', 'p2'), ('level', 'p2', 1), ('root', 'p2', 'R')],
    ]
    for s in seeds:
        # seeded non-initial states, extended by every event (and by every pair in thorough)
        out.append({'kind': 'seeded', 'hist': [list(e) for e in s], 'depth': 1 if tier == 'quick' else 2})
    for b in BURSTS:
        out.append({'kind': 'dev', 'hist': [list(e) for e in b], 'burst': 2})
        if any(e[0] == 'incoming' for e in b[-2:]):
            out.append({'kind': 'dev', 'hist': [list(e) for e in b], 'burst': 2, 'stall': True})
        if tier != 'quick':
            out.append({'kind': 'dev', 'hist': [list(e) for e in b], 'burst': 3})
    for b in SRV_STALL:
        out.append({'kind': 'dev', 'hist': [list(e) for e in b], 'burst': 2, 'srvstall': True})
        if tier != 'quick':
            out.append({'kind': 'dev', 'hist': [list(e) for e in b], 'burst': 3, 'srvstall': True})
    return out


def _t(ev):
    return tuple(tuple(x) if isinstance(x, list) else x for x in ev)


def weight(params, tier):
    return params.get('depth', 1) * 10


def run_scenario(params: dict, tier: str) -> dict:
    if params['kind'] == 'bfs':
        return run_bfs(params['peers'], params['depth'], first=_t(params['first']), tier=tier)
    if params['kind'] == 'seeded':
        hist = tuple(_t(e) for e in params['hist'])
        evs = alphabet(['p1', 'p2', 'p3'], tier)
        execs = [0]

        def apply(h, ev):
            rig = Rig()
            execs[0] += 1
            try:
                before = None
                for x in h:
                    if rig.enabled(x):
                        rig.apply(x)
                if ev is not None:
                    if not rig.enabled(ev):
                        return ('disabled',), [], None
                    before = rig.snapshot()
                    rig.apply(ev)
                rig.check(before, ev)
                return rig.canon(), list(rig.violations), None
            finally:
                rig.close()
        res = bfs([hist], lambda h, info: evs, apply, max_depth=params['depth'])
        return {'executions': execs[0], 'violations': res.violations, 'states': res.states,
                'transitions': res.transitions, 'outcomes': [f's{hash(hist)}:{o}' for o in res.outcomes],
                'capped': False, 'samples': res.samples[:1] or [[str(hist)]]}
    hist = tuple(_t(e) for e in params['hist'])
    res = explore(lambda ch: run_deviation(hist, ch, burst=params.get('burst', 2), stall=params.get('stall', False),
                                           srvstall=params.get('srvstall', False)),
                  bound=1 if tier == 'quick' else 2, max_exec=40000)
    return {'executions': res.executions, 'violations': res.violations, 'states': res.states,
            'transitions': res.transitions, 'outcomes': list(res.outcomes), 'capped': res.capped,
            'bound': res.bound_completed, 'samples': res.samples}


def replay(params: dict, choices: list, tier: str = 'quick') -> dict:
    if params.get('kind') == 'dev':
        hist = tuple(_t(e) for e in params['hist'])
        out = run_deviation(hist, Chooser(choices), burst=params.get('burst', 2), stall=params.get('stall', False),
                            srvstall=params.get('srvstall', False))
        return {'violations': [str(v) for v in out['violations']], 'trace': out['trace']}
    rig = Rig()
    log = []
    try:
        for ev in choices:
            ev = eval(ev) if isinstance(ev, str) else _t(ev)
            if not rig.enabled(ev):
                log.append({'event': repr(ev), 'skipped': True})
                continue
            before = rig.snapshot()
            rig.apply(ev)
            rig.check(before, ev)
            log.append({'event': repr(ev), 'tree': rig.snapshot(), 'server_told': rig.told_server()})
        return {'violations': [str(v) for v in rig.violations], 'log': log}
    finally:
        rig.close()
