"""C19 — room and user views equal the fold of what the server announced.

Real ``RoomManager`` + ``UserManager``; every server notification of the
alphabet is delivered as a ``MessageReceivedEvent`` on the real event bus; after
every event the projection of the real objects is compared with the reference
fold (vt/ref/rooms.py) and the public events with the expected ones.  BFS over
histories with canonical-state deduplication, to closure on small universes.
"""
from __future__ import annotations
import itertools

from ..common import ERRORS, make_settings
from ..world import Violation
from ..bfs import bfs
from ..ref.rooms import RefState

from aioslsk import events as E
from aioslsk.events import EventBus, MessageReceivedEvent
from aioslsk.network.connection import ServerConnection
from aioslsk.room.manager import RoomManager
from aioslsk.user.manager import UserManager
from aioslsk.user.model import BlockingFlag
from aioslsk.session import Session
from aioslsk.protocol.primitives import UserStats, RoomTicker
from aioslsk.protocol import messages as M

PROPERTY = 'C19'
LEVEL = 'model_checking'
RULE = ("BFS over histories of server notifications on the real RoomManager/UserManager; canonical state = "
        "projection of rooms and referenced users (+ last privileged list); closure on the small universes, depth "
        "bound on the larger ones; distinct = distinct canonical states")
ASSUMPTIONS = [
    "reference fold vt/ref/rooms.py written from the property statement; RoomList semantics pinned from the code",
    "every generated RoomList mentions the rooms that are joined (the statement does not define a pruned joined room)",
    "user records are compared only while the user is referenced by a room or is the logged-in user (the library "
    "keeps users in a weak dictionary)",
]

ME = 'me'
S1 = UserStats(10, 1, 100, 5)
S2 = UserStats(20, 2, 200, 6)
STATS = {'s1': S1, 's2': S2}
STATUS = {1: 'AWAY', 2: 'ONLINE', 0: 'OFFLINE'}
BLOCKED_USER = 'b'


class StubNetwork:
    """The managers only *send* through the network here (acks, toggles)"""

    def __init__(self):
        self.sent = []
        self.server_connection = None

    async def send_server_messages(self, *messages, raise_on_error=True):
        self.sent.extend(messages)

    def queue_server_messages(self, *messages):
        self.sent.extend(messages)
        return []


def run_sync(coro):
    try:
        coro.send(None)
    except StopIteration as exc:
        return exc.value
    raise RuntimeError("handler suspended — the stub network should never block")


class Recorder:
    CLASSES = [
        'RoomListEvent', 'RoomJoinedEvent', 'RoomLeftEvent', 'RoomMembershipGrantedEvent',
        'RoomMembershipRevokedEvent', 'RoomOperatorGrantedEvent', 'RoomOperatorRevokedEvent', 'RoomMembersEvent',
        'RoomOperatorsEvent', 'RoomTickersEvent', 'RoomTickerAddedEvent', 'RoomTickerRemovedEvent',
        'RoomMessageEvent', 'PublicMessageEvent', 'PrivateMessageEvent', 'UserStatusUpdateEvent',
        'UserStatsUpdateEvent', 'PrivilegedUsersEvent', 'PrivilegedUserAddedEvent']

    def __init__(self, bus):
        self.seen: list[tuple] = []
        for name in self.CLASSES:
            bus.register(getattr(E, name), self.on_event)

    def on_event(self, event):
        # names only: holding User objects would keep them alive in the library's weak dictionary
        name = event.__class__.__name__
        room = user = None
        if name in ('RoomMessageEvent',):
            room, user = event.message.room.name, event.message.user.name
        elif name == 'PrivateMessageEvent':
            user = event.message.user.name
        elif name == 'PublicMessageEvent':
            room, user = event.room.name, event.user.name
        elif name in ('UserStatusUpdateEvent', 'UserStatsUpdateEvent'):
            user = event.current.name
        elif name == 'PrivilegedUserAddedEvent':
            user = event.user.name
        else:
            r = getattr(event, 'room', None)
            room = r.name if r is not None else None
            u = getattr(event, 'user', None) or getattr(event, 'member', None)
            user = u.name if u is not None else None
        self.seen.append((name, room, user))


_SETTINGS = None


def _settings():
    global _SETTINGS
    if _SETTINGS is None:
        _SETTINGS = make_settings(_copy=True)
        _SETTINGS.users.blocked = {BLOCKED_USER: BlockingFlag.ROOM_MESSAGES | BlockingFlag.PRIVATE_MESSAGES}
    return _SETTINGS


ASPECTS = {
    'membership': {'JoinRoom', 'LeaveRoom', 'UserJoinedRoom', 'UserLeftRoom', 'UserStatus', 'UserStats',
                   'PrivilegedUsers', 'AddPrivilegedUser', 'RoomList'},
    'rooms': {'JoinRoom', 'LeaveRoom', 'UserJoinedRoom', 'UserLeftRoom', 'RoomList'},
    'users': {'JoinRoom', 'UserJoinedRoom', 'UserLeftRoom', 'UserStatus', 'UserStats', 'PrivilegedUsers',
              'AddPrivilegedUser'},
    'users-lite': {'JoinRoom', 'UserLeftRoom', 'UserStatus', 'PrivilegedUsers', 'AddPrivilegedUser'},
    'private': {'RoomList', 'JoinRoom', 'LeaveRoom', 'GrantMembership', 'RevokeMembership', 'MembershipGranted',
                'MembershipRevoked', 'GrantOperator', 'RevokeOperator', 'OperatorGranted', 'OperatorRevoked',
                'Members', 'Operators'},
    'tickers': {'Tickers', 'TickerAdded', 'TickerRemoved', 'RoomChat', 'PublicChat', 'PrivateChat', 'RoomList',
                'JoinRoom', 'LeaveRoom'},
}


class Rig:
    def __init__(self):
        ERRORS.records.clear()
        self.bus = EventBus()
        self.net = StubNetwork()
        settings = _settings()     # never mutated by the managers driven here
        self.users = UserManager(settings, self.bus, self.net)
        self.rooms = RoomManager(settings, self.bus, self.users, self.net)
        self.session = Session(user=self.users.get_user_object(ME), ip_address='', greeting='',
                               client_version=1, minor_version=1)
        self.users._session = self.session
        self.rec = Recorder(self.bus)
        self.conn = ServerConnection('server.sim', 2416, self.net)
        self.ref = RefState(ME)

    def deliver(self, ev):
        kind, args = ev
        msg = build_message(kind, dict(args))
        before = len(self.rec.seen)
        run_sync(self.bus.emit(MessageReceivedEvent(msg, self.conn)))
        expected = self.ref.apply(kind, dict(args))
        return expected, self.rec.seen[before:]

    def projection(self):
        rooms = []
        for name, room in self.rooms.rooms.items():
            rooms.append((room.name, room.private, tuple(sorted(u.name for u in room.users)), room.joined,
                          tuple(sorted(room.tickers.items())), tuple(sorted(room.members)), room.owner,
                          tuple(sorted(room.operators))))
            if name != room.name:
                rooms.append(('KEY-MISMATCH', name, room.name))
        referenced = {ME}
        for room in self.rooms.rooms.values():
            referenced.update(u.name for u in room.users)
        live = self.users.users
        users = []
        for name in sorted(referenced):
            u = live.get(name)
            if u is None:
                users.append((name, 'MISSING', None, None))
            else:
                stats = None
                if u.avg_speed is not None or u.uploads is not None:
                    stats = _stats_name(u)
                users.append((name, u.status.name, stats, u.privileged))
        return (tuple(sorted(rooms)), tuple(users))

    def ref_projection(self):
        k = self.ref.key()
        users = tuple((n, s, st, p) for n, s, st, p in k[1])
        return (k[0], users)


def _stats_name(u):
    for name, s in STATS.items():
        if (u.avg_speed, u.uploads, u.shared_file_count, u.shared_folder_count) == \
                (s.avg_speed, s.uploads, s.shared_file_count, s.shared_folder_count):
            return name
    return 'other'


def build_message(kind, a):
    if kind == 'RoomList':
        return M.RoomList.Response(
            rooms=list(a['public']), rooms_user_count=[3] * len(a['public']),
            rooms_private_owned=list(a['owned']), rooms_private_owned_user_count=[2] * len(a['owned']),
            rooms_private=list(a['member']), rooms_private_user_count=[2] * len(a['member']),
            rooms_private_operated=list(a['operated']))
    if kind == 'JoinRoom':
        users = a['users']
        return M.JoinRoom.Response(
            room=a['room'], users=[u for u, _, _ in users],
            users_status=[_status_code(s) for _, s, _ in users],
            users_stats=[STATS[st] for _, _, st in users], users_slots_free=[1] * len(users),
            users_countries=['BE'] * len(users), owner=a['owner'],
            operators=list(a['operators']) if a['owner'] else None)
    if kind == 'LeaveRoom':
        return M.LeaveRoom.Response(a['room'])
    if kind == 'UserJoinedRoom':
        return M.UserJoinedRoom.Response(a['room'], a['user'], _status_code(a['status']), STATS[a['stats']], 1, 'BE')
    if kind == 'UserLeftRoom':
        return M.UserLeftRoom.Response(a['room'], a['user'])
    if kind == 'GrantMembership':
        return M.PrivateRoomGrantMembership.Response(a['room'], a['user'])
    if kind == 'RevokeMembership':
        return M.PrivateRoomRevokeMembership.Response(a['room'], a['user'])
    if kind == 'MembershipGranted':
        return M.PrivateRoomMembershipGranted.Response(a['room'])
    if kind == 'MembershipRevoked':
        return M.PrivateRoomMembershipRevoked.Response(a['room'])
    if kind == 'GrantOperator':
        return M.PrivateRoomGrantOperator.Response(a['room'], a['user'])
    if kind == 'RevokeOperator':
        return M.PrivateRoomRevokeOperator.Response(a['room'], a['user'])
    if kind == 'OperatorGranted':
        return M.PrivateRoomOperatorGranted.Response(a['room'])
    if kind == 'OperatorRevoked':
        return M.PrivateRoomOperatorRevoked.Response(a['room'])
    if kind == 'Members':
        return M.PrivateRoomMembers.Response(a['room'], list(a['names']))
    if kind == 'Operators':
        return M.PrivateRoomOperators.Response(a['room'], list(a['names']))
    if kind == 'Tickers':
        return M.RoomTickers.Response(a['room'], [RoomTicker(u, t) for u, t in a['tickers']])
    if kind == 'TickerAdded':
        return M.RoomTickerAdded.Response(a['room'], a['user'], a['ticker'])
    if kind == 'TickerRemoved':
        return M.RoomTickerRemoved.Response(a['room'], a['user'])
    if kind == 'RoomChat':
        return M.RoomChatMessage.Response(a['room'], a['user'], 'hello')
    if kind == 'PublicChat':
        return M.PublicChatMessage.Response(a['room'], a['user'], 'hello')
    if kind == 'PrivateChat':
        return M.PrivateChatMessage.Response(7, 1700000000, a['user'], 'psst', False)
    if kind == 'UserStatus':
        return M.GetUserStatus.Response(a['user'], _status_code(a['status']), a['privileged'])
    if kind == 'UserStats':
        return M.GetUserStats.Response(a['user'], STATS[a['stats']])
    if kind == 'PrivilegedUsers':
        return M.PrivilegedUsers.Response(list(a['names']))
    if kind == 'AddPrivilegedUser':
        return M.AddPrivilegedUser.Response(a['user'])
    raise KeyError(kind)


def _status_code(name):
    return {'OFFLINE': 0, 'AWAY': 1, 'ONLINE': 2}[name]


def E_(kind, **a):
    return (kind, tuple(sorted(a.items())))


def alphabet(rooms, users, rich: bool):
    """users excludes me; returns the state-independent part (RoomList is state dependent)"""
    evs = []
    others = [u for u in users if u != ME]
    for r in rooms:
        ulists = [(), ((ME, 'ONLINE', 's1'),), ((ME, 'ONLINE', 's1'), (others[0], 'AWAY', 's2'))]
        if len(others) > 1:
            ulists.append(((others[0], 'ONLINE', 's1'), (others[1], 'ONLINE', 's2')))
        owners = [(None, ()), (others[0], ()), (others[0], (ME,)), (ME, (others[0],))]
        for ul in ulists:
            for owner, ops in (owners if rich else owners[:3]):
                evs.append(E_('JoinRoom', room=r, users=ul, owner=owner, operators=ops))
        evs.append(E_('LeaveRoom', room=r))
        for u in others:
            evs.append(E_('UserJoinedRoom', room=r, user=u, status='ONLINE', stats='s1'))
            if rich:
                evs.append(E_('UserJoinedRoom', room=r, user=u, status='AWAY', stats='s2'))
            evs.append(E_('UserLeftRoom', room=r, user=u))
            evs.append(E_('GrantMembership', room=r, user=u))
            evs.append(E_('RevokeMembership', room=r, user=u))
            evs.append(E_('GrantOperator', room=r, user=u))
            evs.append(E_('RevokeOperator', room=r, user=u))
            evs.append(E_('TickerAdded', room=r, user=u, ticker='t-' + u))
            evs.append(E_('TickerRemoved', room=r, user=u))
        for k in ('MembershipGranted', 'MembershipRevoked', 'OperatorGranted', 'OperatorRevoked'):
            evs.append(E_(k, room=r))
        for names in ((), (others[0],), (others[0], ME)):
            evs.append(E_('Members', room=r, names=names))
        for names in ((), (others[0],), (ME,)):
            evs.append(E_('Operators', room=r, names=names))
        evs.append(E_('Tickers', room=r, tickers=()))
        evs.append(E_('Tickers', room=r, tickers=((others[0], 'x'), (ME, 'y'))))
        evs.append(E_('RoomChat', room=r, user=others[0], blocked=False))
        evs.append(E_('RoomChat', room=r, user=BLOCKED_USER, blocked=True))
        evs.append(E_('PublicChat', room=r, user=others[0], blocked=False))
        evs.append(E_('PublicChat', room=r, user=BLOCKED_USER, blocked=True))
    evs.append(E_('PrivateChat', user=others[0], blocked=False))
    evs.append(E_('PrivateChat', user=BLOCKED_USER, blocked=True))
    for u in [ME] + others:
        evs.append(E_('UserStatus', user=u, status='AWAY', privileged=False))
        evs.append(E_('UserStatus', user=u, status='ONLINE', privileged=True))
        evs.append(E_('UserStats', user=u, stats='s2'))
    evs.append(E_('PrivilegedUsers', names=()))
    evs.append(E_('PrivilegedUsers', names=(others[0],)))
    evs.append(E_('AddPrivilegedUser', user=others[0]))
    return evs


def roomlists(rooms, joined: set):
    """every assignment of each room to {public, owned, member, member+operated, absent}; a joined room is
    never absent"""
    out = []
    for assign in itertools.product(('public', 'owned', 'member', 'memberop', 'absent'), repeat=len(rooms)):
        if any(a == 'absent' and r in joined for r, a in zip(rooms, assign)):
            continue
        out.append(E_(
            'RoomList',
            public=tuple(r for r, a in zip(rooms, assign) if a == 'public'),
            owned=tuple(r for r, a in zip(rooms, assign) if a == 'owned'),
            member=tuple(r for r, a in zip(rooms, assign) if a in ('member', 'memberop')),
            operated=tuple(r for r, a in zip(rooms, assign) if a == 'memberop')))
    return out


def run_bfs(rooms, users, rich, max_depth, first=None, max_states=None, aspect=None) -> dict:
    base = alphabet(rooms, users, rich)
    if aspect is not None:
        base = [e for e in base if e[0] in ASPECTS[aspect]]
    execs = [0]

    def apply(hist, ev):
        rig = Rig()
        execs[0] += 1
        viols = []
        for h in hist:
            rig.deliver(h)
        if ev is not None:
            expected, seen = rig.deliver(ev)
            if sorted(map(repr, expected)) != sorted(map(repr, seen)):
                viols.append(Violation(
                    'events', f"after {ev}: emitted {seen}, expected {expected}",
                    signature=f"C19:events:{ev[0]}"))
            got, want = rig.projection(), rig.ref_projection()
            if got != want:
                what = _diff(got, want)
                viols.append(Violation(
                    'state-differs', f"after {ev} (history {len(hist)} events): {what}",
                    signature=f"C19:state-differs:{ev[0]}:{what.split(' ')[0]}"))
            if ERRORS.records:
                viols.append(Violation('error-log', ERRORS.records[0], signature='C19:error-log:' + ev[0]))
        joined = frozenset(r.name for r in rig.ref.rooms.values() if r.joined)
        return (rig.ref.key(), rig.projection()), viols, joined

    def events(hist, joined):
        return base + roomlists(rooms, set(joined or ()))

    initial = [()] if first is None else [(first,)]
    res = bfs(initial, events, apply, max_depth=max_depth, max_states=max_states)
    return {'executions': execs[0], 'violations': res.violations, 'states': res.states,
            'transitions': res.transitions, 'outcomes': [f'{len(rooms)}{len(users)}{first}:{o}' for o in res.outcomes],
            'capped': bool(res.capped and aspect is not None), 'samples': res.samples[:1] or [[str(base[0])]],
            'extra': {'bfs_closed': int(res.closed), 'bfs_max_depth': res.max_depth}}


def _diff(got, want):
    rg, rw = dict((r[0], r) for r in got[0]), dict((r[0], r) for r in want[0])
    names = ['name', 'private', 'users', 'joined', 'tickers', 'members', 'owner', 'operators']
    for name in sorted(set(rg) | set(rw)):
        if name not in rg:
            return f"room-missing room {name} missing in the library"
        if name not in rw:
            return f"room-extra room {name} not in the reference"
        for i, (a, b) in enumerate(zip(rg[name], rw[name])):
            if a != b:
                return f"room.{names[i]} of {name}: library {a!r}, reference {b!r}"
    for a, b in zip(got[1], want[1]):
        if a != b:
            f = ['name', 'status', 'stats', 'privileged']
            for i in range(4):
                if a[i] != b[i]:
                    return f"user.{f[i]} of {a[0]}: library {a[i]!r}, reference {b[i]!r}"
    if len(got[1]) != len(want[1]):
        return f"user-set library {got[1]} reference {want[1]}"
    return 'unknown'


def scenarios(tier: str):
    out = []
    one = {'rooms': ['r1'], 'users': [ME, 'a']}
    if tier == 'quick':
        # closure (histories of any length) per aspect on the one-room universe
        for aspect in ('rooms', 'users-lite', 'private', 'tickers'):
            out.append({**one, 'rich': False, 'depth': 60, 'aspect': aspect})
        # all aspects together: depth 2 on two rooms x three users (partitioned by first event)
        base = alphabet(['r1', 'r2'], [ME, 'a', 'b'], True)
        for ev in base + roomlists(['r1', 'r2'], set()):
            out.append({'rooms': ['r1', 'r2'], 'users': [ME, 'a', 'b'], 'rich': True, 'depth': 1, 'first': ev})
        # and depth 3 on the one-room universe
        for ev in alphabet(['r1'], [ME, 'a'], False) + roomlists(['r1'], set()):
            out.append({**one, 'rich': False, 'depth': 2, 'first': ev})
    else:
        for aspect in ('rooms', 'users', 'membership', 'private', 'tickers'):
            out.append({**one, 'rich': True, 'depth': 80, 'aspect': aspect, 'max_states': 80000})
        for aspect in ('rooms', 'private', 'tickers'):
            out.append({'rooms': ['r1'], 'users': [ME, 'a', 'b'], 'rich': False, 'depth': 80, 'aspect': aspect,
                        'max_states': 80000})
        base = alphabet(['r1', 'r2'], [ME, 'a', 'b'], True)
        for ev in base + roomlists(['r1', 'r2'], set()):
            out.append({'rooms': ['r1', 'r2'], 'users': [ME, 'a', 'b'], 'rich': True, 'depth': 2, 'first': ev})
        for ev in alphabet(['r1'], [ME, 'a'], True) + roomlists(['r1'], set()):
            out.append({**one, 'rich': True, 'depth': 3, 'first': ev})
    return out


def weight(params, tier):
    return 100000 if 'first' not in params else params['depth']


def run_scenario(params: dict, tier: str) -> dict:
    first = params.get('first')
    if first is not None:
        first = (first[0], tuple(tuple(x) if isinstance(x, list) else x for x in map(_tuplify, first[1])))
    return run_bfs(params['rooms'], params['users'], params['rich'], params['depth'], first=first,
                   max_states=params.get('max_states'), aspect=params.get('aspect'))


def _tuplify(x):
    if isinstance(x, list):
        return tuple(_tuplify(i) for i in x)
    return x


def replay(params: dict, choices: list, tier: str = 'quick') -> dict:
    rig = Rig()
    log = []
    for ev in choices:
        ev = eval(ev) if isinstance(ev, str) else _tuplify(ev)
        expected, seen = rig.deliver(ev)
        log.append({'event': repr(ev), 'emitted': seen, 'expected': expected,
                    'library': repr(rig.projection()), 'reference': repr(rig.ref_projection())})
    bad = [entry for entry in log if entry['library'] != entry['reference'] or
           sorted(map(repr, entry['emitted'])) != sorted(map(repr, entry['expected']))]
    return {'violations': [b['event'] for b in bad], 'log': log[-3:]}
