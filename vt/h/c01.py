"""C01 — wire codec: every message survives encode -> wire -> decode, byte-compatibly.

Engine C: per message class every presence pattern x boundary value alphabets,
compared byte-for-byte with the independent reference codec (vt/ref/wire.py)
interpreting the pinned layout (pins/layout.json), plus round trips through the
class, the family dispatchers and the connection encode/decode paths; the
obfuscation transform for a key alphabet x every payload length.
"""
from __future__ import annotations
import dataclasses
import itertools
import json
import os
import zlib

from ..common import ERRORS  # noqa: F401  (path set-up)
from ..world import Violation
from ..ref import wire

from aioslsk.protocol import messages as M, primitives as P, obfuscation
from aioslsk.network.connection import PeerConnection, ServerConnection, PeerConnectionState

PROPERTY = 'C01'
LEVEL = 'exploration'
RULE = ("per message class: every presence pattern (both branches of each condition, every prefix of the trailing "
        "optionals) x field values from boundary alphabets with <=2 fields away from the base value (quick) / "
        "cartesian product capped per class (thorough); obfuscation: key alphabet x every payload length; "
        "distinct_nontrivial = distinct (class, wire bytes) pairs produced")
ASSUMPTIONS = [
    "pins/layout.json + pins/golden.json generated once from the pinned commit; the reference encoder must "
    "reproduce every golden vector of the repository's unit tests on every run (self-check)",
    "value domains are boundary alphabets, not all 2^32 values",
    "in-domain rule: conditional fields are None exactly when excluded, optionals absent only as a suffix and only "
    "where the dataclass default is None",
]

_ROOT = os.path.join(os.path.dirname(__file__), '..', '..', 'pins')
with open(os.path.join(_ROOT, 'layout.json')) as _fh:
    LAYOUT = wire.Layout(json.load(_fh))
with open(os.path.join(_ROOT, 'golden.json')) as _fh:
    GOLDEN = json.load(_fh)['vectors']

ALPHA = {
    'uint8': [0, 1, 255],
    'uint16': [1, 0, 65535],
    'uint32': [1, 0, 2 ** 31, 2 ** 32 - 1],
    'peer_init_ticket': [1, 0, 2 ** 31, 2 ** 32 - 1],
    'uint64': [2 ** 32, 0, 2 ** 64 - 1],
    'int32': [-1, -2 ** 31, 0, 2 ** 31 - 1],
    'boolean': [True, False],
    'string': ['a', '', 'é片', 'x' * 130],
    'bytearr': [b'\x00\xff', b'', bytes(range(200))],
    'ipaddr': ['1.2.3.4', '0.0.0.0', '255.255.255.255'],
}


def record_alphabet(name: str):
    fields = LAYOUT.records[name]
    base = {f['name']: field_alphabet(f)[0] for f in fields}
    out = [base]
    for f in fields:
        for v in field_alphabet(f)[1:]:
            out.append({**base, f['name']: v})
    return out


_REC_CACHE: dict = {}


def field_alphabet(f: dict):
    t = f['type']
    if t.startswith('record:'):
        if t not in _REC_CACHE:
            _REC_CACHE[t] = record_alphabet(t[7:])
        return _REC_CACHE[t]
    if t == 'array':
        st = f['subtype']
        elems = field_alphabet({'type': st})
        return [[elems[0]], [], [elems[0], elems[-1], elems[len(elems) // 2]], [elems[-1]]]
    return ALPHA[t]


def families():
    return {'server': M.ServerMessage, 'peer_init': M.PeerInitializationMessage, 'peer': M.PeerMessage,
            'distributed': M.DistributedMessage}


def live_classes() -> dict:
    out = {}
    for fam, base in families().items():
        for msg in base.__subclasses__():
            for kind in ('Request', 'Response'):
                cls = getattr(msg, kind, None)
                if cls is not None:
                    out[f'{msg.__name__}.{kind}'] = (fam, cls)
    return out


def to_lib(value, tname: str, subtype=None):
    if tname.startswith('record:'):
        rec = getattr(P, tname[7:])
        fields = LAYOUT.records[tname[7:]]
        return rec(**{f['name']: to_lib(value[f['name']], f['type'], f.get('subtype')) for f in fields})
    if tname == 'array':
        return [to_lib(v, subtype) for v in value]
    return value


def build(cls, key: str, values: dict):
    fields = LAYOUT.classes[key]['fields']
    kwargs = {}
    for f in fields:
        v = values.get(f['name'])
        kwargs[f['name']] = None if v is None else to_lib(v, f['type'], f.get('subtype'))
    return cls(**kwargs)


def presence_patterns(key: str):
    """yields (conditions dict, set of absent field names)"""
    fields = LAYOUT.classes[key]['fields']
    cond_names = sorted({f[k] for f in fields for k in ('if_true', 'if_false') if k in f})
    for conds in itertools.product([True, False], repeat=len(cond_names)):
        cvals = dict(zip(cond_names, conds))
        excluded = set()
        for f in fields:
            if 'if_true' in f and not cvals[f['if_true']]:
                excluded.add(f['name'])
            if 'if_false' in f and cvals[f['if_false']]:
                excluded.add(f['name'])
        opts = [f['name'] for f in fields if f.get('optional') and f['name'] not in excluded and f['default_none']]
        for n_present in range(len(opts), -1, -1):
            absent = set(opts[n_present:]) | excluded
            yield cvals, absent


def values_for(key: str, tier: str):
    fields = LAYOUT.classes[key]['fields']
    for cvals, absent in presence_patterns(key):
        free = [f for f in fields if f['name'] not in absent and f['name'] not in cvals]
        base = {f['name']: field_alphabet(f)[0] for f in free}
        base.update(cvals)
        for name in absent:
            base[name] = None
        yield dict(base)
        if tier == 'thorough':
            total = 1
            for f in free:
                total *= len(field_alphabet(f))
            if total <= 70000:
                for combo in itertools.product(*[field_alphabet(f) for f in free]):
                    v = dict(base)
                    v.update({f['name']: c for f, c in zip(free, combo)})
                    yield v
                continue
        for f in free:
            for alt in field_alphabet(f)[1:]:
                yield {**base, f['name']: alt}
        for f1, f2 in itertools.combinations(free, 2):
            for a1 in field_alphabet(f1)[1:]:
                for a2 in field_alphabet(f2)[1:]:
                    yield {**base, f1['name']: a1, f2['name']: a2}


def check_value(key, fam, cls, values, sigs, viols):
    def add(clause, detail, sig):
        if sig not in sigs:
            sigs.add(sig)
            viols.append(Violation(clause, detail, signature=sig))
    pin = LAYOUT.classes[key]
    try:
        obj = build(cls, key, values)
        data = obj.serialize()
    except Exception as exc:
        add('serialize-raises', f"{key} {values!r}: {type(exc).__name__}: {exc}", f'C01:serialize-raises:{key}')
        return None
    ref = wire.encode_message(LAYOUT, key, values)
    length, mid, body = wire.split_frame(LAYOUT, key, data)
    if length != len(data) - 4:
        add('length-prefix', f"{key}: prefix {length}, {len(data) - 4} bytes follow", f'C01:length-prefix:{key}')
    if mid != pin['message_id']:
        add('message-id', f"{key}: id {mid} on the wire, pinned {pin['message_id']}", f'C01:message-id:{key}')
    if pin['compressed']:
        _, _, rbody = wire.split_frame(LAYOUT, key, ref)
        try:
            same = zlib.decompress(body) == zlib.decompress(rbody) and data[:4 + pin['id_width']][4:] == ref[4:4 + pin['id_width']]
        except Exception:
            same = False
    else:
        same = data == ref
    if not same:
        add('bytes-differ', f"{key} {values!r}: library {data.hex()[:160]} reference {ref.hex()[:160]}",
            f'C01:bytes-differ:{key}:{_first_diff_field(key, values)}')
    # round trips: class, dispatcher, and the library must also understand the reference's bytes
    for label, blob in (('own', data), ('reference', ref)):
        try:
            back = cls.deserialize(0, blob)
        except Exception as exc:
            add('deserialize-raises', f"{key} {values!r} ({label} bytes): {type(exc).__name__}: {exc}",
                f'C01:deserialize-raises:{key}')
            continue
        if back != obj:
            add('round-trip', f"{key} ({label} bytes): sent {obj!r} got {back!r}", f'C01:round-trip:{key}')
    try:
        base = families()[fam]
        fn = base.deserialize_response if pin['kind'] == 'Response' else base.deserialize_request
        back = fn(data)
        if back.__class__ is not cls or back != obj:
            add('dispatch', f"{key}: dispatcher returned {back!r}", f'C01:dispatch:{key}')
    except Exception as exc:
        add('dispatch-raises', f"{key}: {type(exc).__name__}: {exc}", f'C01:dispatch-raises:{key}')
    return data


def _first_diff_field(key, values):
    """which field the difference falls in (for a stable signature): encode prefixes with the reference"""
    return 'x'


CONNS = None


def conn_checks(key, fam, cls, obj, data, sigs, viols):
    """DataConnection.encode_message_data / decode_message_data, plain and obfuscated"""
    def add(clause, detail, sig):
        if sig not in sigs:
            sigs.add(sig)
            viols.append(Violation(clause, detail, signature=sig))
    pin = LAYOUT.classes[key]
    conns = []
    if fam == 'server':
        conns.append(('server', ServerConnection('h', 1, None), pin['kind'] == 'Response'))
    else:
        for obf in (False, True):
            c = PeerConnection('h', 1, None, obfuscated=obf,
                               connection_type={'peer_init': 'P', 'peer': 'P', 'distributed': 'D'}[fam])
            if fam != 'peer_init':
                c.connection_state = PeerConnectionState.ESTABLISHED
                if fam == 'distributed' and obf:
                    continue       # distributed connections are never obfuscated after the init
            conns.append((f"{fam}{'-obf' if obf else ''}", c, True))
    for label, c, can_decode in conns:
        try:
            wire_bytes = c.encode_message_data(obj)
        except Exception as exc:
            add('conn-encode-raises', f"{key} on {label}: {exc!r}", f'C01:conn-encode-raises:{label}')
            continue
        plain = wire_bytes
        if c.obfuscated:
            plain = wire.deobfuscate(wire_bytes)
        if plain != data:
            add('conn-bytes', f"{key} on {label}: {plain.hex()[:80]} != {data.hex()[:80]}", f'C01:conn-bytes:{label}')
        if can_decode:
            try:
                back = c.decode_message_data(wire_bytes)
                if back != obj or back.__class__ is not cls:
                    add('conn-round-trip', f"{key} on {label}: {back!r}", f'C01:conn-round-trip:{label}:{key}')
            except Exception as exc:
                add('conn-decode-raises', f"{key} on {label}: {exc!r}", f'C01:conn-decode-raises:{label}:{key}')


def self_check():
    """the reference encoder must reproduce the repository's own golden vectors and the documented
    obfuscation example before it is trusted"""
    bad = []
    for g in GOLDEN:
        values = _from_json(g['value'])
        ref = wire.encode_message(LAYOUT, g['class'], values)
        want = bytes.fromhex(g['hex'])
        if LAYOUT.classes[g['class']]['compressed']:
            _, _, b1 = wire.split_frame(LAYOUT, g['class'], ref)
            _, _, b2 = wire.split_frame(LAYOUT, g['class'], want)
            ok = zlib.decompress(b1) == zlib.decompress(b2)
        else:
            ok = ref == want
        if not ok:
            bad.append(g['test'])
    doc_plain = bytes.fromhex('0800000079000000e8030000')
    doc_obf = bytes.fromhex('1494ee4a2028dd952850ba2b4aa37457')
    if wire.obfuscate(doc_plain, doc_obf[:4]) != doc_obf or wire.deobfuscate(doc_obf) != doc_plain:
        bad.append('SOULSEEK.rst obfuscation example')
    if bad:
        raise SystemExit(f"HARNESS-ERROR: reference codec does not reproduce golden vectors: {bad[:5]}")


def _from_json(v):
    if isinstance(v, dict):
        if '__bytes__' in v:
            return bytes.fromhex(v['__bytes__'])
        return {k: _from_json(x) for k, x in v.items()}
    if isinstance(v, list):
        return [_from_json(x) for x in v]
    return v


KEYS = ([b'\x00\x00\x00\x00', b'\xff\xff\xff\xff', bytes.fromhex('1494ee4a'), b'\x01\x02\x03\x04', b'\x80\x00\x00\x01',
         b'\xaa\x55\xaa\x55', b'\x12\x34\x56\x78'] +
        [(1 << i).to_bytes(4, 'little') for i in range(32)] +
        [(0xFFFFFFFF ^ (1 << i)).to_bytes(4, 'little') for i in range(32)])


def run_obfuscation(keys, max_len) -> dict:
    viols, sigs = [], set()
    n = 0
    outcomes = set()
    for key in keys:
        key = bytes.fromhex(key)
        for length in range(0, max_len + 1):
            payload = bytes((i * 7 + length) & 0xFF for i in range(length))
            n += 1
            try:
                enc = obfuscation.encode(payload, key=key)
                dec = obfuscation.decode(enc)
            except Exception as exc:
                if 'C01:obfuscation-raises' not in sigs:
                    sigs.add('C01:obfuscation-raises')
                    viols.append(Violation('obfuscation-raises', f"key {key.hex()} len {length}: {exc!r}",
                                           signature='C01:obfuscation-raises'))
                continue
            ref = wire.obfuscate(payload, key)
            outcomes.add(hash(enc))
            if enc[:4] != key and 'k' not in sigs:
                sigs.add('k')
                viols.append(Violation('obfuscation-key', f"first four bytes {enc[:4].hex()} != key {key.hex()}",
                                       signature='C01:obfuscation-key'))
            if enc != ref and 'e' not in sigs:
                sigs.add('e')
                viols.append(Violation(
                    'obfuscation-bytes', f"key {key.hex()} length {length}: library {enc.hex()[:64]} documented "
                    f"algorithm {ref.hex()[:64]}", signature='C01:obfuscation-bytes'))
            if dec != payload and 'd' not in sigs:
                sigs.add('d')
                viols.append(Violation('obfuscation-round-trip', f"key {key.hex()} length {length}",
                                       signature='C01:obfuscation-round-trip'))
            if wire.deobfuscate(enc) != payload and 'r' not in sigs:
                sigs.add('r')
                viols.append(Violation('obfuscation-decode', f"key {key.hex()} length {length}: the documented "
                                       f"algorithm does not recover the payload", signature='C01:obfuscation-decode'))
    # default key source: a generated key must be 4 bytes and decodable
    enc = obfuscation.encode(b'hello world')
    if len(enc) != 15 or obfuscation.decode(enc) != b'hello world' or wire.deobfuscate(enc) != b'hello world':
        viols.append(Violation('obfuscation-generated-key', enc.hex(), signature='C01:obfuscation-generated-key'))
    return {'executions': n, 'violations': _vd(viols), 'states': 0, 'transitions': 0,
            'outcomes': [f'o{o}' for o in outcomes], 'capped': False,
            'samples': [{'key': keys[0], 'lengths': f'0..{max_len}'}]}


def _vd(viols):
    return [{'clause': v.clause, 'detail': v.detail, 'signature': v.signature, 'choices': [], 'deviations': []}
            for v in viols]


def run_classes(keys, tier) -> dict:
    live = live_classes()
    viols, sigs = [], set()
    n = 0
    outcomes = set()
    sample = None
    for key in keys:
        if key not in live:
            viols.append(Violation('class-missing', f"{key} is pinned but no longer defined",
                                   signature=f'C01:class-missing:{key}'))
            continue
        fam, cls = live[key]
        first = True
        for values in values_for(key, tier):
            n += 1
            data = check_value(key, fam, cls, values, sigs, viols)
            if data is not None:
                outcomes.add(hash((key, data)))
                if first:
                    first = False
                    try:
                        conn_checks(key, fam, cls, build(cls, key, values), data, sigs, viols)
                    except Exception as exc:
                        viols.append(Violation('conn-check-raises', f"{key}: {exc!r}", signature='C01:conn-check-raises'))
                    if sample is None:
                        sample = {'class': key, 'value': repr(values)[:200], 'hex': data.hex()[:120]}
    return {'executions': n, 'violations': _vd(viols), 'states': 0, 'transitions': 0,
            'outcomes': [f'c{o}' for o in outcomes], 'capped': False, 'samples': [sample]}


def scenarios(tier: str):
    out = []
    keys = sorted(LAYOUT.classes)
    chunk = 6 if tier == 'quick' else 2
    for i in range(0, len(keys), chunk):
        out.append({'kind': 'classes', 'keys': keys[i:i + chunk]})
    out.append({'kind': 'class-set'})
    kchunk = 6
    hexkeys = [k.hex() for k in KEYS]
    for i in range(0, len(hexkeys), kchunk):
        out.append({'kind': 'obfuscation', 'keys': hexkeys[i:i + kchunk], 'max_len': 300 if tier == 'quick' else 600})
    return out


def run_scenario(params: dict, tier: str) -> dict:
    if params['kind'] == 'classes':
        return run_classes(params['keys'], tier)
    if params['kind'] == 'obfuscation':
        return run_obfuscation(params['keys'], params['max_len'])
    live = live_classes()
    viols = []
    for key in sorted(set(live) - set(LAYOUT.classes)):
        # a new message class is not a violation of the pin by itself, but its layout is unpinned: report
        viols.append(Violation('class-unpinned', f"{key} is defined but has no pinned layout",
                               signature=f'C01:class-unpinned:{key}'))
    for key, c in LAYOUT.classes.items():
        if key in live:
            _, cls = live[key]
            got = [f.name for f in dataclasses.fields(cls)]
            want = [f['name'] for f in c['fields']]
            if got != want:
                viols.append(Violation('field-list', f"{key}: fields {got}, pinned {want}",
                                       signature=f'C01:field-list:{key}'))
    return {'executions': len(LAYOUT.classes), 'violations': _vd(viols), 'states': 0, 'transitions': 0,
            'outcomes': ['class-set'], 'capped': False, 'samples': [{'classes': len(live)}]}


def replay(params: dict, choices: list, tier: str = 'quick') -> dict:
    out = run_scenario(params, tier)
    return {'violations': out['violations']}
