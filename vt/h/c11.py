"""C11 — connecting to a peer succeeds iff a path works, and leaves nothing behind.

Real ``Network.create_peer_connection`` (fallback and race), scripted server
(GetPeerAddress, ConnectToPeer relay, CannotConnect) and scripted peer (accepts,
refuses, hangs, pierces the firewall).  Inverse role: ``ConnectToPeer.Response``
from the server with the connect-back succeeding / failing.
"""
from __future__ import annotations
import asyncio

from ..common import ERRORS, install_virtual_time, make_settings
from ..world import World, Violation, EnvEvent
from ..simnet import SimNet, MemTransport
from ..actors import ScriptedServer, ScriptedPeer
from ..explore import Chooser, explore
from .c10 import SeqObserver

from aioslsk.network.network import Network
from aioslsk.network.connection import ConnectionState, PeerConnectionState, PeerConnection
from aioslsk.events import EventBus
from aioslsk.exceptions import PeerConnectionError
from aioslsk.protocol.messages import (
    CannotConnect, ConnectToPeer, GetPeerAddress, PeerInit, PeerPierceFirewall)

PROPERTY = 'C11'
LEVEL = 'model_checking'
RULE = ("scenario = connect mode x direct outcome x indirect outcome x port/obfuscation configuration x type x "
        "cancellation; every schedule within the deviation bound runs on the real Network; distinct = distinct "
        "logs (result, frames seen by the scripted server/peer, leftovers)")
ASSUMPTIONS = [
    "VLoop ordering; scripted server and peer",
    "the 'must succeed' clause is judged only on schedules without hold/loss deviations (a held attempt may "
    "legitimately exceed its time-out); the 'leaves nothing behind' clauses are judged on every schedule",
    "asyncio.wait's done/pending set order is accepted either way",
]

PEER_IP = '10.0.3.7'
CLEAR_PORT, OBF_PORT = 5000, 5001


def run_one(params: dict, chooser, deviations=True) -> dict:
    ERRORS.records.clear()
    role = params.get('role', 'request')
    world = World(chooser=chooser, horizon=100.0, deviations=False, slowcpu=True)
    try:
        net = SimNet(world, losable=False)
        install_virtual_time(world)
        server = ScriptedServer(net)
        ports = params.get('ports', 'clear')   # clear | obf | both
        prefer_obf = params.get('prefer_obf', False)
        settings = make_settings(
            _copy=False,
            network={'peer': {'connect_mode': params.get('mode', 'race'), 'obfuscate': prefer_obf}})
        bus = EventBus()
        network = Network(settings, bus)
        obs = SeqObserver(world, bus)
        typ = params.get('typ', 'P')
        direct = params.get('direct', 'ok')
        indirect = params.get('indirect', 'silence')
        violations: list[Violation] = []
        sigs: set = set()

        def add(clause, detail, sig):
            if sig not in sigs:
                sigs.add(sig)
                violations.append(Violation(clause, detail, signature=sig))

        async def setup():
            await network.initialize()
            network.server_connection.start_reader_task()
        world.op('setup', 'init', setup, record=False)
        world.run_default_until_idle()

        adv_clear = CLEAR_PORT if ports in ('clear', 'both') else 0
        adv_obf = OBF_PORT if ports in ('obf', 'both') else 0
        use_obf = (ports == 'obf') or (ports == 'both' and prefer_obf)
        target_port = OBF_PORT if use_obf else CLEAR_PORT
        peer = ScriptedPeer(net, 'bob', PEER_IP, listen=False)
        if direct in ('ok', 'init_send_fails'):
            # the peer listens on every advertised port; connecting to a port it does not advertise is refused
            if adv_clear:
                net.listen_actor(PEER_IP, CLEAR_PORT, lambda end: _pc(peer, False))
            if adv_obf:
                net.listen_actor(PEER_IP, OBF_PORT, lambda end: _pc(peer, True))
        elif direct == 'hang':
            net.routes[(PEER_IP, CLEAR_PORT)] = 'hang'
            net.routes[(PEER_IP, OBF_PORT)] = 'hang'
        else:
            net.routes[(PEER_IP, CLEAR_PORT)] = 'refuse'
            net.routes[(PEER_IP, OBF_PORT)] = 'refuse'

        if direct == 'init_send_fails':
            def on_conn(pc):
                if pc.incoming:
                    # the socket dies under the library right after the connect: its first write fails
                    lib = pc.end.conn.ends[0]
                    if isinstance(lib, MemTransport):
                        lib.fail_writes = ConnectionResetError(104, 'reset')
            peer.on_conn = on_conn

        state = {'tickets': [], 'pierced': []}

        def on_get_peer_address(srv, msg):
            srv.send(GetPeerAddress.Response(msg.username, PEER_IP, adv_clear, 1 if adv_obf else 0, adv_obf))
        server.auto[GetPeerAddress.Request] = on_get_peer_address

        def on_connect_to_peer(srv, msg):
            state['tickets'].append(msg.ticket)
            if indirect == 'pierce':
                # the peer connects back to our listening port and pierces the firewall
                pc = peer.connect_pierce(60000, msg.ticket, msg.typ)
                state['pierced'].append(pc)
            elif indirect == 'cannot_connect':
                srv.send(CannotConnect.Response(msg.ticket))
        server.auto[ConnectToPeer.Request] = on_connect_to_peer

        world.deviations = deviations

        if role == 'request':
            if indirect == 'server_send_fails':
                lib_srv = network.server_connection._writer.transport
                lib_srv.fail_writes = ConnectionResetError(104, 'reset')
            holder: dict = {}

            if params.get('reuse'):
                # an established connection with the peer exists; the peer hangs it up (FIN) around the time of the
                # request: the request gets that connection only while it is usable, otherwise a new one
                existing = peer.connect_init(60000, typ)
                world.run_default_until_idle()

                def hangup():
                    existing.close()
                world.post(EnvEvent('inject', 'peer-closes-existing', hangup, chan=None))

            async def request():
                if params.get('reuse'):
                    c = await network.get_peer_connection('bob', typ)
                elif params.get('explicit_addr') or indirect == 'server_send_fails':
                    c = await network.create_peer_connection(
                        'bob', typ, ip=PEER_IP, port=target_port, obfuscate=use_obf)
                else:
                    c = await network.create_peer_connection('bob', typ)
                holder['conn'] = c
                return (c.state.name, c.connection_state.name, c.connection_type, c.username)
            slot = world.op('u', 'create_peer_connection', request)
            if params.get('cancel'):
                async def cancel():
                    t = slot.get('task')
                    if t is not None and not t.done():
                        world.log('cancel-request')
                        t.cancel()
                world.op('x', 'cancel', cancel)
            if params.get('late_pierce'):
                def late():
                    if state['tickets']:
                        pc = peer.connect_pierce(60000, state['tickets'][0], typ)
                        state['late'] = pc
                world.post(EnvEvent('inject', 'late-pierce', late, chan=None,
                                    guard=lambda: slot['state'] in ('done', 'cancelled')))
            world.state_fn = lambda: (
                slot['state'], tuple(sorted(c.state.name for c in network.peer_connections)),
                len(network._expected_response_futures), len(network._expected_connection_futures),
                tuple(sorted(ev.key for ev in world.pending)))
            # judged at "returned + quiescent": the clock is not advanced past the return (a late loop is only
            # explored while the request is pending)
            world.boundary_hooks.append(
                lambda: setattr(world, 'opt_slowcpu', slot['state'] not in ('done', 'cancelled')))
            world.run(until=lambda: slot['state'] in ('done', 'cancelled') and not world.loop.has_ready()
                      and not world.releasable())

            labels = chooser.labels() if hasattr(chooser, 'labels') else []
            timing_dev = any(lbl.startswith(('hold', 'lose', 'slowcpu', 'unhold')) for lbl in labels)
            direct_works = direct == 'ok'
            indirect_works = indirect == 'pierce'
            late_timeout = False
            if params.get('mode', 'race') == 'fallback':
                should = direct_works or indirect_works
            else:
                should = direct_works or indirect_works
            result, exc = slot.get('result'), slot.get('exc')
            cancelled = slot['state'] == 'cancelled'
            stuck = [ev for ev in world.pending if ev.held or ev.lost]
            if slot['state'] == 'waiting':
                pass    # the call itself was held back beyond the horizon
            elif slot['state'] not in ('done', 'cancelled') and any(
                    ev.chan in ((1, 0), (1, 1)) for ev in stuck):
                pass    # a server answer (GetPeerAddress) is withheld for ever: outside the stated fault model
            elif slot['state'] not in ('done', 'cancelled') and any(
                    lbl.startswith(('slowcpu', 'hold:op:u')) for lbl in labels):
                pass    # a late loop / a late call used up the horizon (its time-outs are counted from the late start)
            elif slot['state'] not in ('done', 'cancelled'):
                add('never-returns', f"create_peer_connection still pending at the horizon ({slot['state']})",
                    'C11:never-returns')
            elif cancelled:
                pass
            elif exc:
                if exc != 'PeerConnectionError':
                    add('wrong-exception', f"raised {exc}: {slot.get('exc_obj')!r}", f'C11:wrong-exception:{exc}')
                elif should and not timing_dev and not params.get('cancel'):
                    add('should-succeed', f"raised PeerConnectionError although direct={direct} indirect={indirect}",
                        f"C11:should-succeed:{params.get('mode')}:{direct}:{indirect}")
            else:
                c = holder['conn']
                want_cs = 'NEGOTIATING_TRANSFER' if typ == 'F' else 'ESTABLISHED'
                # a loop that is a whole read time-out late closes the new connection in the iteration it is returned
                late_timeout = any(lbl.startswith('slowcpu') for lbl in labels) and any(
                    o[1] == 'state' and o[5] == 'TIMEOUT' for o in world.obs if len(o) > 5)
                if result != ('CONNECTED', want_cs, typ, 'bob') and not late_timeout:
                    add('unusable-connection', f"returned connection is {result}", 'C11:unusable-connection')
                if not should and not timing_dev and not params.get('reuse'):
                    add('should-fail', f"returned a connection although direct={direct} indirect={indirect}",
                        'C11:should-fail')
                # the peer must have seen a decodable init on that very socket (direct) or sent the pierce
                t = c._writer.transport if c._writer is not None else None
                if isinstance(t, MemTransport):
                    pcs = [pc for pc in peer.conns if pc.end.conn is t.conn]
                    if pcs and pcs[0].incoming:
                        init = pcs[0].init
                        in_flight = any(ev.chan == (t.conn.cid, 0) for ev in world.pending)
                        if in_flight:
                            pass     # the init frame is still on its way (held by the schedule)
                        elif not (isinstance(init, PeerInit.Request) and init.username == 'me' and init.typ == typ
                                  and init.ticket in _all_tickets(state, server)):
                            add('bad-peer-init', f"peer saw init {init!r}, undecodable={peer.undecodable}",
                                'C11:bad-peer-init')
            # ---- nothing left behind (judged once the request is over) ---------------------------
            if slot['state'] in ('done', 'cancelled'):
                keep = holder.get('conn') if not exc and not cancelled else None
                reg = list(network.peer_connections)
                # an incoming connection that has not sent its first frame yet is not known to belong to
                # this request (it is closed as 'unknown ticket' or by the init time-out later)
                extra = [c for c in reg if c is not keep
                         and not (c.incoming and c.connection_state == PeerConnectionState.AWAITING_INIT)]
                awaiting = {id(c._writer.transport) for c in reg
                            if c.incoming and c.connection_state == PeerConnectionState.AWAITING_INIT
                            and c._writer is not None}
                if cancelled:
                    # a cancelled request neither returns nor raises; a connection that was already fully
                    # initialised and announced (PeerInitializedEvent) before the cancellation belongs to its
                    # listeners (the distributed network relies on this) — only half-open leftovers count
                    announced = [c for c in extra if c.state == ConnectionState.CONNECTED
                                 and c.connection_state != PeerConnectionState.AWAITING_INIT]
                    extra = [c for c in extra if c not in announced]
                    awaiting |= {id(c._writer.transport) for c in announced if c._writer is not None}
                if extra:
                    add('leftover-connection',
                        f"registry holds {extra!r} besides the returned connection",
                        f"C11:leftover-connection:{extra[0].state.name}:{'in' if extra[0].incoming else 'out'}")
                if params.get('reuse'):
                    pass      # the peer hangs the reused connection up: it is judged at the moment it was returned
                elif keep is not None and not any(c is keep for c in reg) and not late_timeout:
                    add('returned-not-registered', f"{keep!r} not in registry", 'C11:returned-not-registered')
                keep_t = keep._writer.transport if (keep is not None and keep._writer is not None) else None
                for sc in net.conns:
                    for end in sc.ends:
                        if isinstance(end, MemTransport) and end is not keep_t and not end.is_closing():
                            if sc.addr == ('server.sim', 2416) or id(end) in awaiting or not sc.accepted:
                                continue
                            add('leftover-socket', f"socket {sc.label} still open", f'C11:leftover-socket')
                if network._expected_connection_futures:
                    add('leftover-ticket-waiter',
                        f"_expected_connection_futures={list(network._expected_connection_futures)}",
                        'C11:leftover-ticket-waiter')
                if network._expected_response_futures:
                    add('leftover-response-waiter',
                        f"{[(f.message_class.__qualname__, f.fields) for f in network._expected_response_futures]}",
                        'C11:leftover-response-waiter')
                live = [t.get_name() for t in world.live_tasks()
                        if t.get_name().startswith(('direct-connect', 'indirect-connect'))]
                if live:
                    add('leftover-task', f"{live}", 'C11:leftover-task')
                if params.get('late_pierce') and 'late' in state and state['late'] is not None:
                    late_pc = state['late']
                    adopted = [c for c in network.peer_connections
                               if c._writer is not None and c.connection_state != PeerConnectionState.AWAITING_INIT and getattr(c._writer.transport, 'conn', None) is late_pc.end.conn]
                    if adopted and (keep is None or adopted[0] is not keep):
                        add('late-pierce-adopted', f"{adopted!r}", 'C11:late-pierce-adopted')
        else:
            # inverse role: the server relays a peer's request to connect back
            ticket = 777

            def inject():
                server.send(ConnectToPeer.Response('bob', typ, PEER_IP, adv_clear, ticket, False,
                                                   1 if adv_obf else 0, adv_obf))
            world.post(EnvEvent('inject', 'connect-to-peer', inject, chan=None))
            world.state_fn = lambda: (
                tuple(sorted(c.state.name for c in network.peer_connections)),
                len(network._create_peer_connection_tasks), tuple(sorted(ev.key for ev in world.pending)))
            world.run()
            pierces = [m for m in peer.of_type(PeerPierceFirewall.Request) if m.ticket == ticket]
            cannot = [m for m in server.of_type(CannotConnect.Request) if m.ticket == ticket]
            stuck = [ev for ev in world.pending if ev.held or ev.lost]
            if stuck and len(pierces) + len(cannot) == 0:
                pass     # the relay or the answer is still held by the schedule
            elif len(pierces) + len(cannot) != 1:
                add('connect-back-answer',
                    f"peer saw {len(pierces)} pierce-firewall, server saw {len(cannot)} cannot-connect "
                    f"(direct={direct}, undecodable at peer={len(peer.undecodable)})",
                    f'C11:connect-back-answer:{len(pierces)}:{len(cannot)}')
            if cannot and cannot[0].username != 'bob':
                add('cannot-connect-user', repr(cannot[0]), 'C11:cannot-connect-user')
            if direct == 'ok' and not pierces and not any(
                    lbl.startswith(('hold', 'lose', 'slowcpu')) for lbl in (chooser.labels() if hasattr(chooser, 'labels') else [])):
                add('connect-back-should-pierce', f"cannot={cannot}", 'C11:connect-back-should-pierce')
            if network._create_peer_connection_tasks:
                add('leftover-task', 'connect-to-peer task alive', 'C11:leftover-connect-to-peer-task')
            for c in network.peer_connections:
                if c.state != ConnectionState.CONNECTED:
                    add('leftover-connection', repr(c), f'C11:leftover-connection:{c.state.name}:out')

        unret = world.unretrieved_task_exceptions()
        if unret:
            add('task-exception', unret[0], 'C11:task-exception:' + unret[0].split(':', 1)[1].strip()[:40])
        if world.loop_errors():
            add('loop-error', world.loop_errors()[0], 'C11:loop-error:' + world.loop_errors()[0][:60])
        return {'violations': violations, 'obs': list(world.obs) + [('server', [type(m).__qualname__ for m in server.received]),
                                                                 ('peer', [type(m).__qualname__ for _, m in peer.received])],
                'transitions': world.loop.batches, 'states': set(world.state_keys), 'trace': list(world.trace)}
    finally:
        world.close()


def _all_tickets(state, server):
    # the direct attempt's PeerInit carries the request ticket; the server saw it in ConnectToPeer (race) —
    # in fallback mode no ConnectToPeer is sent when direct succeeds, then any ticket is fine
    return set(state['tickets']) or set(range(0, 1 << 32, 1)) if False else _AnyTicket(state['tickets'])


class _AnyTicket:
    def __init__(self, tickets):
        self.tickets = tickets

    def __contains__(self, t):
        return not self.tickets or t in self.tickets


def _pc(peer, obf):
    from ..actors import PeerConn
    return PeerConn(peer, True, obf)


def scenarios(tier: str):
    out = []
    for mode in ('fallback', 'race'):
        for direct in ('ok', 'refuse', 'hang', 'init_send_fails'):
            for indirect in ('pierce', 'cannot_connect', 'silence', 'server_send_fails'):
                for ports, prefer in (('clear', False), ('obf', False), ('both', False), ('both', True)):
                    if tier == 'quick' and ports != 'clear' and not (direct == 'ok' and indirect in ('pierce', 'silence')):
                        continue
                    for cancel in (False, True):
                        if cancel and tier == 'quick' and ports != 'clear':
                            continue
                        out.append({'mode': mode, 'direct': direct, 'indirect': indirect, 'ports': ports,
                                    'prefer_obf': prefer, 'cancel': cancel, 'typ': 'P',
                                    'late_pierce': indirect == 'pierce' or direct == 'ok'})
        for typ in ('F', 'D'):
            for direct, indirect in (('ok', 'silence'), ('refuse', 'pierce'), ('ok', 'pierce'), ('hang', 'cannot_connect')):
                out.append({'mode': mode, 'direct': direct, 'indirect': indirect, 'ports': 'both', 'prefer_obf': True,
                            'cancel': False, 'typ': typ, 'late_pierce': True})
        for direct, indirect in (('ok', 'silence'), ('refuse', 'pierce'), ('hang', 'silence')):
            out.append({'mode': mode, 'direct': direct, 'indirect': indirect, 'ports': 'both', 'prefer_obf': True,
                        'cancel': False, 'typ': 'D', 'explicit_addr': True})
    for mode in ('fallback', 'race'):
        for direct, indirect in (('ok', 'silence'), ('refuse', 'pierce'), ('refuse', 'silence')):
            out.append({'mode': mode, 'direct': direct, 'indirect': indirect, 'ports': 'clear', 'prefer_obf': False,
                        'cancel': False, 'typ': 'P', 'reuse': True})
    for direct in ('ok', 'refuse', 'hang', 'init_send_fails'):
        for ports, prefer in (('clear', False), ('obf', False), ('both', False), ('both', True)):
            for typ in ('P', 'F'):
                out.append({'role': 'connect-back', 'direct': direct, 'ports': ports, 'prefer_obf': prefer, 'typ': typ})
    return out


def weight(params, tier):
    return 5 if params.get('mode') == 'race' else 2


def run_scenario(params: dict, tier: str) -> dict:
    bound = 2 if tier == 'quick' else 3
    res = explore(lambda ch: run_one(params, ch), bound=bound, max_exec=400000)
    return {'executions': res.executions, 'violations': res.violations, 'states': res.states,
            'transitions': res.transitions, 'outcomes': list(res.outcomes), 'nontrivial': list(res.nontrivial),
            'capped': res.capped, 'bound': res.bound_completed, 'samples': res.samples}


def replay(params: dict, choices: list, tier: str = 'quick') -> dict:
    out = run_one(params, Chooser(choices))
    return {'violations': [str(v) for v in out['violations']], 'trace': out['trace'], 'obs': out['obs']}
