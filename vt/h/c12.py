"""C12 — a reply completes exactly the requests it answers; a timeout is a timeout.

Real ``Network`` + real server/peer reader loops over SimNet.  Scenario = a list
of concurrent waiters (with time-outs / explicit cancellation) and a sequence of
incoming messages; the explorer places arrivals relative to calls, time-outs
and cancellations (early / reorder / hold-until-one-shot-deadline incl. the same
iteration as the time-out).
"""
from __future__ import annotations
import asyncio
import itertools
import types

from ..common import ERRORS, ConnObserver, install_virtual_time, make_settings
from ..world import World, Violation
from ..simnet import SimNet
from ..actors import ScriptedServer, ScriptedPeer
from ..explore import Chooser, explore, outcome_digest

from async_timeout import timeout as atimeout
from aioslsk.network.network import Network
from aioslsk.network.connection import ServerConnection, PeerConnection
from aioslsk.events import EventBus, MessageReceivedEvent
from aioslsk.client import SoulSeekClient
from aioslsk.commands import GetUserStatusCommand
from aioslsk.protocol.messages import AddUser, GetUserStatus, PeerTransferReply, GetUserStats
from aioslsk.protocol.primitives import UserStats

PROPERTY = 'C12'
LEVEL = 'model_checking'
RULE = ("scenario = waiter list x incoming message sequence x coalescing; every schedule within the deviation "
        "bound (early/reorder/hold-to-deadline/lose) is executed on the real Network; distinct = distinct "
        "observation logs (calls, message events, results)")
ASSUMPTIONS = [
    "CPython asyncio ordering as reproduced by VLoop (externals, then due timers, then one FIFO batch)",
    "TCP abstracted to in-order chunk delivery; messages of one chunk are processed back-to-back",
    "a waiter whose deadline equals the arrival instant may complete either way (both accepted)",
]

# --- waiter kinds ------------------------------------------------------------------------------------
# name -> (source, class, fields-as-reference-predicate)
STATS = UserStats(1, 2, 3, 4)


def _ref_match(kind: str, src: str, msg) -> bool:
    """Reference matcher written from the property statement: type, source and
    *all* field values"""
    if kind in ('srvA', 'futA'):
        return src == 'server' and isinstance(msg, AddUser.Response) and msg.username == 'a'
    if kind == 'srvB':
        return src == 'server' and isinstance(msg, AddUser.Response) and msg.username == 'b'
    if kind in ('stA', 'exec'):
        return src == 'server' and isinstance(msg, GetUserStatus.Response) and msg.username == 'a'
    if kind == 'call':
        # two matchers: a callable on username and a plain value on exists
        return (src == 'server' and isinstance(msg, AddUser.Response) and msg.username == 'a'
                and msg.exists is False)
    if kind == 'peerP':
        return src == 'p' and isinstance(msg, PeerTransferReply.Request) and msg.ticket == 1
    if kind == 'peerPn':    # no field matchers at all: still only from peer p
        return src == 'p' and isinstance(msg, PeerTransferReply.Request)
    if kind == 'srvN':      # no field matchers: any AddUser.Response from the server
        return src == 'server' and isinstance(msg, AddUser.Response)
    if kind == 'peerQ':
        return src == 'q' and isinstance(msg, PeerTransferReply.Request) and msg.ticket == 1
    if kind == 'probe':
        return src == 'server' and isinstance(msg, GetUserStats.Response) and msg.username == 'z'
    raise KeyError(kind)


def _start_waiter(kind: str, network: Network, timeout: float):
    if kind == 'srvA':
        return lambda: network.wait_for_server_message(AddUser.Response, {'username': 'a'}, timeout=timeout)
    if kind == 'srvB':
        return lambda: network.wait_for_server_message(AddUser.Response, {'username': 'b'}, timeout=timeout)
    if kind == 'stA':
        return lambda: network.wait_for_server_message(GetUserStatus.Response, {'username': 'a'}, timeout=timeout)
    if kind == 'call':
        return lambda: network.wait_for_server_message(
            AddUser.Response, {'username': lambda v: v == 'a', 'exists': False}, timeout=timeout)
    if kind == 'peerP':
        return lambda: network.wait_for_peer_message('p', PeerTransferReply.Request, {'ticket': 1}, timeout=timeout)
    if kind == 'peerQ':
        return lambda: network.wait_for_peer_message('q', PeerTransferReply.Request, {'ticket': 1}, timeout=timeout)
    if kind == 'peerPn':
        return lambda: network.wait_for_peer_message('p', PeerTransferReply.Request, timeout=timeout)
    if kind == 'srvN':
        return lambda: network.wait_for_server_message(AddUser.Response, timeout=timeout)
    if kind == 'futA':
        async def fut_style():
            # the way the library's own managers wait (transfer negotiation, peer address)
            future = network.create_server_response_future(AddUser.Response, fields={'username': 'a'})
            async with atimeout(timeout):
                _, response = await future
            return response
        return fut_style
    if kind == 'exec':
        shell = types.SimpleNamespace(session=object(), network=network)
        return lambda: SoulSeekClient.execute(shell, GetUserStatusCommand('a'), response=True, timeout=timeout)
    if kind == 'probe':
        return lambda: network.wait_for_server_message(GetUserStats.Response, {'username': 'z'}, timeout=timeout)
    raise KeyError(kind)


WAITER_KINDS = ['srvA', 'srvB', 'stA', 'call', 'peerP', 'peerQ', 'futA', 'exec', 'peerPn', 'srvN']

MESSAGES = {
    'A': ('server', lambda: AddUser.Response('a', True, 2, STATS, 'BE')),
    'An': ('server', lambda: AddUser.Response('a', False)),
    'B': ('server', lambda: AddUser.Response('b', True, 2, STATS, 'BE')),
    'S': ('server', lambda: GetUserStatus.Response('a', 2, False)),
    'P1': ('p', lambda: PeerTransferReply.Request(1, True)),
    'P2': ('p', lambda: PeerTransferReply.Request(2, True)),
    'Q1': ('q', lambda: PeerTransferReply.Request(1, False, reason='Cancelled')),
    'X': ('p', lambda: None),                                   # p closes its connection
    'R1': ('p', lambda: PeerTransferReply.Request(1, True)),    # p reconnects and sends P1 on the new connection
}
_MSG_OBJS = {k: v[1]() for k, v in MESSAGES.items() if k != 'X'}
PROBE_MSG = lambda: GetUserStats.Response('z', STATS)  # noqa: E731


def _descr(msg) -> str:
    return repr(msg)


class Obs:
    def __init__(self, world, bus):
        self.world = world
        world.keep.append(self)
        bus.register(MessageReceivedEvent, self.on_message, priority=0)

    def on_message(self, event):
        conn = event.connection
        src = 'server' if isinstance(conn, ServerConnection) else conn.username
        self.world.log('msg', src, _descr(event.message))
        self.world.obs_msgs.append((len(self.world.obs) - 1, self.world.now(), src, event.message))


def run_one(params: dict, chooser, deviations=True) -> dict:
    """One execution of the scenario under the schedule chosen by ``chooser``"""
    waiters = params['waiters']          # list of [kind, timeout, cancel_at|None]
    msgs = params['msgs']                # list of message keys
    coalesce = params['coalesce']
    ERRORS.records.clear()
    # slowcpu: the loop is late, a due time-out fires in the iteration in which the reader task already processes
    # the reply (reader first) — the other order of 'same iteration' than hold + unhold-before gives
    world = World(chooser=chooser, horizon=40.0, deviations=False, slowcpu=True)
    world.obs_msgs = []
    violations: list[Violation] = []
    try:
        net = SimNet(world, losable=True)
        install_virtual_time(world)
        server = ScriptedServer(net)
        need_peers = sorted({MESSAGES[m][0] for m in msgs if MESSAGES[m][0] != 'server'} |
                            {{'peerP': 'p', 'peerQ': 'q', 'peerPn': 'p'}[w[0]] for w in waiters if w[0] in ('peerP', 'peerQ', 'peerPn')})
        bus = EventBus()
        network = Network(make_settings(obfuscated_port=0, _copy=False), bus)
        obs = Obs(world, bus)
        peers = {}

        async def setup():
            await network.initialize()
            network.server_connection.start_reader_task()
        world.op('setup', 'init', setup, record=False)
        world.run_default_until_idle()
        peer_objs = {}
        for name in need_peers:
            peer = ScriptedPeer(net, name, f'10.0.1.{ord(name)}', listen=False)
            peer_objs[name] = peer
            peers[name] = peer.connect_init(60000, 'P')
        world.run_default_until_idle()
        for conn in net.conns:
            conn.coalesce = coalesce

        # explored phase ---------------------------------------------------------------------
        world.deviations = deviations
        slots = []
        for i, (kind, timeout, cancel_at) in enumerate(waiters):
            slot = world.op(f'w{i}', kind, _start_waiter(kind, network, timeout))
            slot['kind'], slot['timeout'], slot['cancel_at'] = kind, timeout, cancel_at
            slots.append(slot)
            if cancel_at is not None:
                def make_cancel(slot=slot, cancel_at=cancel_at, i=i):
                    async def canceller():
                        await asyncio.sleep(cancel_at)
                        if 'task' in slot and not slot['task'].done():
                            world.log('cancel', f'w{i}')
                            slot['cancelled_at'] = world.now()
                            slot['task'].cancel()
                    return canceller
                world.op(f'x{i}', 'cancel', make_cancel(), record=False)
        world.state_fn = lambda: (
            tuple(s['state'] for s in slots), len(network._expected_response_futures),
            tuple(sorted(ev.key for ev in world.pending)))
        for key in msgs:
            src, make = MESSAGES[key]
            if key == 'X':
                peers['p'].close()                 # the peer hangs up its only connection ...
            elif key == 'R1':
                peers['p'] = peer_objs['p'].connect_init(60000, 'P')      # ... comes back on a new one and answers there
                peers['p'].send(make())
            elif src == 'server':
                server.send(make())
            else:
                peers[src].send(make())
        world.run()
        # probe phase: later messages still reach later waiters -----------------------------------
        world.deviations = False
        world.horizon = world.now() + 20
        for ev in world.pending:     # the network recovers: stalled chunks arrive now
            ev.held = ev.lost = False
        world.run_default_until_idle()
        probe = world.op('probe', 'probe', _start_waiter('probe', network, 5.0))
        probe['kind'], probe['timeout'], probe['cancel_at'] = 'probe', 5.0, None
        world.run_default_until_idle()
        server.send(PROBE_MSG())
        world.run()

        # --- oracle ---------------------------------------------------------------------------
        for i, slot in enumerate(slots + [probe]):
            v = _check_waiter(world, slot)
            if v:
                violations.append(v)
        residue = [f for f in network._expected_response_futures]
        if residue:
            violations.append(Violation(
                'residue', f"{len(residue)} expected-response entries left at quiescence: "
                f"{[(f.message_class.__qualname__, f.peer, 'done' if f.done() else 'pending') for f in residue]}",
                signature='C12:residue'))
        cb_errors = [r for r in ERRORS.records if 'error during callback' in r]
        if cb_errors:
            violations.append(Violation(
                'error-during-callback', cb_errors[0], signature='C12:error-during-callback:' + _exc_in(cb_errors[0])))
        unret = world.unretrieved_task_exceptions()
        if unret:
            violations.append(Violation('task-exception', unret[0], signature='C12:task-exception:' + unret[0].split(':')[1].strip()[:40]))
        if world.loop_errors():
            violations.append(Violation('loop-error', world.loop_errors()[0], signature='C12:loop-error'))
        obs_log = [o for o in world.obs]
        return {
            'violations': violations, 'obs': obs_log, 'transitions': world.loop.batches,
            'states': set(world.state_keys), 'trace': list(world.trace),
            'nontrivial': any(o[1] == 'msg' for o in obs_log),
        }
    finally:
        world.close()


def _exc_in(record: str) -> str:
    if '[' in record:
        return record.rsplit('[', 1)[1].split(':')[0]
    return '?'


def _check_waiter(world, slot):
    kind = slot['kind']
    name = f"{slot['thread']}:{kind}"
    if 't_call' not in slot:
        return None   # never started (its start event was lost) — nothing to judge
    call_idx = None
    for idx, o in enumerate(world.obs):
        if o[1] == 'call' and o[2] == slot['thread']:
            call_idx = idx
            break
    t_call = slot['t_call']
    deadline = t_call + slot['timeout']
    cancel_at = slot.get('cancelled_at')
    limit = deadline if cancel_at is None else min(deadline, cancel_at)
    must = may = None
    for idx, t, src, msg in world.obs_msgs:
        if idx < call_idx:
            continue
        if not _ref_match(kind, src, msg):
            continue
        if t < limit - 1e-9 and must is None:
            must = msg
            break
        if abs(t - limit) <= 1e-9 and may is None:
            may = msg
    got_exc = slot.get('exc')
    got = slot.get('result')
    state = slot['state']
    if state not in ('done', 'cancelled'):
        return Violation('never-returns', f"waiter {name} never returned (state {state})",
                         signature=f'C12:never-returns:{kind}')

    def same(result, msg):
        if kind == 'exec':
            return result is not None and int(result.status.value) == msg.status and result.privileged == msg.privileged
        return result == msg

    if must is not None:
        if got_exc or not same(got, must):
            return Violation(
                'missed-reply', f"waiter {name} (called t={t_call}, deadline {deadline}) should have completed "
                f"with {must!r} but got {got_exc or got!r}", signature=f'C12:missed-reply:{kind}:{got_exc or "other-result"}')
        return None
    end_kind = 'TimeoutError' if (cancel_at is None or deadline < cancel_at) else 'CancelledError'
    if may is not None and not got_exc and same(got, may):
        return None
    late_any = any(str(t).startswith('slowcpu') for t in world.trace)
    if not got_exc and late_any and any(
            idx >= call_idx and _ref_match(kind, src, msg) and same(got, msg) for idx, t, src, msg in world.obs_msgs):
        # a late loop: the call registered its time-out later than the harness' clock reading of the call
        return None
    if not got_exc:
        return Violation(
            'spurious-completion', f"waiter {name} completed with {got!r} although no matching message "
            f"arrived while it was pending", signature=f'C12:spurious-completion:{kind}')
    if got_exc != end_kind:
        late = any(str(t).startswith('slowcpu') for t in world.trace)
        if slot.get('cancel_at') is not None and (late or (cancel_at is not None and abs(cancel_at - deadline) <= 1e-9)) \
                and got_exc in ('TimeoutError', 'CancelledError'):
            # the cancellation and the time-out fell into the same iteration (same instant, or a late loop)
            return None
        return Violation(
            'timeout-type', f"waiter {name} with no matching reply ended with {got_exc} "
            f"({slot.get('exc_obj')!r}) instead of {end_kind}", signature=f'C12:timeout-type:{kind}:{got_exc}')
    late_loop = any(str(t).startswith('slowcpu') for t in world.trace)     # a late loop delays time-outs legitimately
    if end_kind == 'TimeoutError' and abs(slot['t_ret'] - deadline) > 1e-6 and not late_loop:
        return Violation(
            'timeout-time', f"waiter {name} timed out at {slot['t_ret']} instead of {deadline}",
            signature=f'C12:timeout-time:{kind}')
    return None


# --- scenario space ----------------------------------------------------------------------------------

def _waiter_sets(tier: str):
    out = []
    kinds = WAITER_KINDS
    touts = [5.0, 10.0, 7.0, 12.0]
    for k in kinds:
        out.append([[k, 5.0, None]])
        out.append([[k, 5.0, 3.0]])
    for a, b in itertools.product(kinds, repeat=2):
        out.append([[a, 5.0, None], [b, 10.0, None]])
    for a, b in itertools.combinations_with_replacement(['srvA', 'futA', 'call', 'peerP', 'exec', 'stA'], 2):
        out.append([[a, 5.0, 3.0], [b, 10.0, None]])
        out.append([[a, 5.0, None], [b, 10.0, 5.0]])
    triples = [
        ['srvA', 'srvA', 'srvA'], ['srvA', 'futA', 'call'], ['srvA', 'srvB', 'stA'], ['peerP', 'peerQ', 'peerP'],
        ['exec', 'stA', 'exec'], ['futA', 'futA', 'srvA'], ['call', 'call', 'srvA'], ['peerP', 'srvA', 'peerP'],
        ['peerPn', 'peerQ', 'peerP'], ['srvN', 'srvA', 'srvB'],
    ]
    if tier == 'thorough':
        triples = [list(t) for t in itertools.combinations_with_replacement(kinds, 3)]
    for t in triples:
        out.append([[k, touts[i], None] for i, k in enumerate(t)])
    if tier == 'thorough':
        for q in itertools.combinations_with_replacement(['srvA', 'futA', 'call', 'peerP', 'exec'], 4):
            out.append([[k, touts[i], None] for i, k in enumerate(q)])
    return out


def _relevant(waiters, msgs) -> bool:
    """keep a message sequence only if every message could concern one of the
    waiters' sources (others are exercised by the probe phase anyway)"""
    srcs = set()
    for k, _, _ in waiters:
        srcs.add({'peerP': 'p', 'peerQ': 'q', 'peerPn': 'p'}.get(k, 'server'))
    if 'p' in srcs or 'q' in srcs:
        srcs |= {'p', 'q'}
    if not all(MESSAGES[m][0] in srcs for m in msgs):
        return False
    if len(msgs) >= 2:
        # longer sequences must contain at least one message that answers one of the waiters
        # (pure distractor sequences are covered at length 1)
        objs = [(MESSAGES[m][0], _MSG_OBJS[m]) for m in msgs]
        return any(_ref_match(k, src, o) for k, _, _ in waiters for src, o in objs)
    return True


def scenarios(tier: str):
    keys = [k for k in MESSAGES if k not in ('X', 'R1')]
    seqs = [[]] + [[k] for k in keys] + [list(p) for p in itertools.product(keys, repeat=2)]
    if tier == 'thorough':
        seqs += [list(p) for p in itertools.product(keys, repeat=3)]
    else:
        seqs += [['A', 'A', 'A'], ['An', 'A', 'S'], ['B', 'A', 'An'], ['P2', 'P1', 'Q1'], ['S', 'S', 'A'], ['A', 'An', 'A']]
    out = []
    from . import c12_neg
    neg = c12_neg.cases(tier)
    for i in range(0, len(neg), 25):
        out.append({'neg': neg[i:i + 25]})
    # the peer's only connection closes while a request for its reply is pending; the reply comes on a new
    # connection of that peer, or never
    for w in (['peerP', 10.0, None], ['peerPn', 10.0, None], ['peerP', 5.0, None]):
        for seq in (['X'], ['X', 'R1'], ['X', 'R1', 'P1'], ['P2', 'X', 'R1']):
            out.append({'waiters': [w], 'msgs': seq, 'coalesce': False})
        out.append({'waiters': [w, ['peerQ', 10.0, None]], 'msgs': ['X', 'Q1', 'R1'], 'coalesce': False})
    from . import c12_cmd
    names = c12_cmd.command_classes()
    for i in range(0, len(names), 4):
        out.append({'cmd': names[i:i + 4]})
    for ws in _waiter_sets(tier):
        for seq in seqs:
            if not _relevant(ws, seq):
                continue
            for coalesce in ((False, True) if len(seq) > 1 else (False,)):
                out.append({'waiters': ws, 'msgs': seq, 'coalesce': coalesce})
    return out


def weight(params, tier):
    if 'cmd' in params:
        return 4
    if 'neg' in params:
        return 8
    return len(params['waiters']) * 3 + len(params['msgs'])


def _bound(params, tier):
    size = len(params['waiters']) + len(params['msgs'])
    if tier == 'thorough':
        # bound 2 up to 4 participants (waiters + messages): measured ~14 CPU-hours for the whole tier; bound 2 on
        # the 5-participant scenarios alone would be ~55 CPU-hours
        return 2 if size <= 4 else 1
    return 2 if size <= 2 else 1


def _run_neg(params):
    from . import c12_neg
    viols, sigs, outcomes, transitions, n = [], set(), set(), 0, 0
    for case in params['neg']:
        out = c12_neg.run_negotiation(case)
        n += 1
        transitions += out['transitions']
        outcomes.add(repr((case, out['obs'])))
        for v in out['violations']:
            if v.signature not in sigs:
                sigs.add(v.signature)
                viols.append({'clause': v.clause, 'detail': v.detail, 'signature': v.signature, 'choices': [],
                              'deviations': [], 'case': case})
    return {'executions': n, 'violations': viols, 'states': len(outcomes), 'transitions': transitions,
            'outcomes': [str(hash(o)) for o in outcomes], 'nontrivial': [str(hash(o)) for o in outcomes],
            'capped': False, 'samples': [{'case': params['neg'][0]}]}


def _run_cmd(params):
    from . import c12_cmd
    viols, sigs, outcomes, transitions, n = [], set(), set(), 0, 0
    for name in params['cmd']:
        for variant in ('match', 'other0', 'other1', 'other2'):
            out = c12_cmd.run_command(name, variant)
            n += 1
            transitions += out['transitions']
            outcomes.add(repr(out['obs']))
            for v in out['violations']:
                if v.signature not in sigs:
                    sigs.add(v.signature)
                    viols.append({'clause': v.clause, 'detail': v.detail, 'signature': v.signature, 'choices': [],
                                  'deviations': [], 'case': [name, variant]})
    return {'executions': n, 'violations': viols, 'states': len(outcomes), 'transitions': transitions,
            'outcomes': [str(hash(o)) for o in outcomes], 'nontrivial': [str(hash(o)) for o in outcomes],
            'capped': False, 'samples': [{'command': params['cmd'][0]}]}


def run_scenario(params: dict, tier: str) -> dict:
    if 'cmd' in params:
        return _run_cmd(params)
    if 'neg' in params:
        return _run_neg(params)
    bound = _bound(params, tier)
    res = explore(lambda ch: run_one(params, ch), bound=bound, max_exec=200000)
    return {
        'executions': res.executions, 'violations': res.violations, 'states': res.states,
        'transitions': res.transitions, 'outcomes': list(res.outcomes), 'nontrivial': list(res.nontrivial),
        'capped': res.capped,
        'bound': res.bound_completed, 'samples': res.samples,
    }


def replay(params: dict, choices: list, tier: str = 'quick') -> dict:
    if 'cmd' in params:
        return {'violations': _run_cmd(params)['violations']}
    if 'neg' in params:
        return {'violations': _run_neg(params)['violations']}
    out = run_one(params, Chooser(choices))
    return {'violations': [str(v) for v in out['violations']], 'trace': out['trace'], 'obs': out['obs']}
