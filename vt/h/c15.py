"""C15 — user tracking on the server mirrors the set of reasons to track.

Real ``UserManager`` / ``UserTrackingManager`` + real ``Network`` against the
scripted server whose answer to each AddUser attempt follows a script (exists,
not-exists, silence, send failure).  Scenario = call sequence over
{track, untrack} x flags x users (+ optional server loss); the explorer places
every call and every answer relative to the worker's progress.
"""
from __future__ import annotations
import itertools

from ..common import ERRORS, install_virtual_time, make_settings
from ..world import World, Violation, EnvEvent
from ..simnet import SimNet
from ..actors import ScriptedServer
from ..explore import Chooser, explore

from aioslsk.events import EventBus, FriendListChangedEvent, UserTrackingStateChangedEvent
from aioslsk.network.network import Network
from aioslsk.user.manager import UserManager
from aioslsk.user.model import TrackingFlag, TrackingState
from aioslsk.protocol.messages import AddUser, RemoveUser
from aioslsk.protocol.primitives import UserStats

PROPERTY = 'C15'
LEVEL = 'model_checking'
RULE = ("scenario = call sequence over {track,untrack} x {REQUESTED,FRIEND,TRANSFER} x {a,b} (canonical up to "
        "renaming) x server answer script (x server loss); every schedule within the deviation bound on the real "
        "tracking manager; distinct = distinct logs of calls and frames seen by the scripted server")
ASSUMPTIONS = [
    "scripted server; answers are not released before the request batch has finished (a round trip shorter than "
    "two loop iterations is not a real network; see DESIGN.md C15)",
    "retry delays from docs/USAGE.rst and the constants: 10 s after a send error / silence, 600 s for an unknown user",
]

FLAGS = {'R': TrackingFlag.REQUESTED, 'F': TrackingFlag.FRIEND, 'T': TrackingFlag.TRANSFER}
STATS = UserStats(1, 2, 3, 4)


def run_one(params: dict, chooser, deviations=True) -> dict:
    ERRORS.records.clear()
    calls = params['calls']          # list of 'tRa' = track REQUESTED a, 'uFb' = untrack FRIEND b
    script = params['script']        # answers per AddUser attempt (all users), last one repeats
    horizon = params.get('horizon', 80.0)
    world = World(chooser=chooser, horizon=horizon, deviations=False, op_anywhere=True, slowcpu=True)
    violations: list[Violation] = []
    sigs = set()

    def add(clause, detail, sig):
        if sig not in sigs:
            sigs.add(sig)
            violations.append(Violation(clause, detail, signature=sig))
    try:
        net = SimNet(world)
        install_virtual_time(world)
        server = ScriptedServer(net)
        settings = make_settings(_copy=any(c[0] in 'AD' for c in calls), obfuscated_port=0)     # friend list ops mutate it
        bus = EventBus()
        network = Network(settings, bus)
        users = UserManager(settings, bus, network)
        world.keep.append(users)
        attempts: list[tuple] = []      # (time, user, answer)

        def on_add_user(srv, msg):
            answer = script[min(len(attempts), len(script) - 1)]
            attempts.append((world.now(), msg.username, answer))
            if answer == 'exists':
                srv.send(AddUser.Response(msg.username, True, 2, STATS, 'BE'))
            elif answer == 'notexists':
                srv.send(AddUser.Response(msg.username, False))
        server.auto[AddUser.Request] = on_add_user

        seen_answers: list[tuple] = []   # (time, user, exists, seq) as received by the library
        seq_counter = [0]
        closed_at: list[float] = []

        class _Tap:
            def on_message(self, event):
                m = event.message
                if isinstance(m, AddUser.Response):
                    seq_counter[0] += 1
                    seen_answers.append((world.now(), m.username, m.exists, seq_counter[0]))

            def on_state(self, event):
                from aioslsk.network.connection import ServerConnection, ConnectionState as CS
                if isinstance(event.connection, ServerConnection) and event.state in (CS.CLOSING, CS.CLOSED):
                    closed_at.append(world.now())
        tap = _Tap()
        world.keep.append(tap)
        from aioslsk.events import MessageReceivedEvent, ConnectionStateChangedEvent
        bus.register(MessageReceivedEvent, tap.on_message, priority=0)
        bus.register(ConnectionStateChangedEvent, tap.on_state, priority=0)

        def effective(j, user):
            """what the j-th AddUser the library wrote for this user amounted to: answered iff the library
            received an AddUser.Response for the user (whichever request caused it) after writing the request
            and within the 10 s it waits"""
            adds = [w for w in writes if w[1] == 'add' and w[2] == user]
            t, seq = adds[j][0], adds[j][3]
            if any(a[2] == 'sendfail' for a in attempts[:0]):
                return 'sendfail'
            for rt, ru, exists, rseq in seen_answers:
                if ru != user or rseq < seq:
                    continue
                if rt < t + 10 - 1e-9:
                    return 'exists' if exists else 'notexists'
                if abs(rt - (t + 10)) <= 1e-9:
                    return 'ambiguous'
                break
            return 'silence'

        async def setup():
            await network.initialize()
            network.server_connection.start_reader_task()
        world.op('setup', 'init', setup, record=False)
        world.run_default_until_idle()
        net.conns[0].early_ok[1] = False      # server -> client answers are never 'early'
        writes: list[tuple] = []       # (time written by the library, 'add'|'remove', user)
        wbuf = bytearray()

        def on_write(src, data):
            if src != 0:
                return
            wbuf.extend(data)
            import struct as _st
            while len(wbuf) >= 4:
                (ln,) = _st.unpack_from('<I', wbuf, 0)
                if len(wbuf) < 4 + ln:
                    break
                fr = bytes(wbuf[:4 + ln])
                del wbuf[:4 + ln]
                code = _st.unpack_from('<I', fr, 4)[0]
                if code in (5, 6):
                    (sl,) = _st.unpack_from('<I', fr, 8)
                    seq_counter[0] += 1
                    writes.append((world.now(), 'add' if code == 5 else 'remove', fr[12:12 + sl].decode(), seq_counter[0]))
        net.conns[0].on_write = on_write
        if 'sendfail' in script:
            # the n-th AddUser write fails on the socket
            idx = script.index('sendfail')
            lib_t = network.server_connection._writer.transport
            state = {'n': 0}
            orig_write = lib_t.write

            def write(data):
                if data[4:8] == b'\x05\x00\x00\x00':
                    if state['n'] == idx:
                        lib_t.fail_writes = ConnectionResetError(104, 'reset')
                    state['n'] += 1
                return orig_write(data)
            lib_t.write = write

        if any(c[0] in 'AD' for c in calls):
            # friend list changes are only acted upon within a session
            from aioslsk.session import Session
            from aioslsk.user.model import User
            from aioslsk.protocol.messages import Login
            from aioslsk.events import SessionInitializedEvent

            async def session():
                await bus.emit(SessionInitializedEvent(Session(User('me'), '10.0.0.1', 'hi', 157, 100), Login.Response(
                    success=True, greeting='hi', ip='10.0.0.1', md5hash='x' * 32, privileged=False)))
            world.op('setup', 'session', session, record=False)
            world.run_default_until_idle()
        world.deviations = deviations
        call_log: list[tuple] = []     # (time, op, flag, user)
        for n, c in enumerate(calls):
            op, fl, user = c[0], c[1], c[2]

            async def do(op=op, fl=fl, user=user):
                # 'A' / 'D': the user is added to / removed from the friend list in the settings and the manager is
                # told the way its own settings poll tells it (same reason-set semantics as track / untrack FRIEND)
                call_log.append((world.now(), {'A': 't', 'D': 'u'}.get(op, op), fl, user, len(server.received)))
                if op == 't':
                    await users.track_user(user, FLAGS[fl])
                elif op == 'u':
                    await users.untrack_user(user, FLAGS[fl])
                elif op == 'A':
                    settings.users.friends.add(user)
                    await bus.emit(FriendListChangedEvent(added={user}, removed=set()))
                else:
                    settings.users.friends.discard(user)
                    await bus.emit(FriendListChangedEvent(added=set(), removed={user}))
            world.op('u', f'{n}{c}', do)
        if params.get('loss'):
            def lose():
                server.end.close()
            world.post(EnvEvent('inject', 'server-eof', lose, chan=None))
        tm = users._tracking_manager
        world.state_fn = lambda: (
            tuple(sorted((n, int(t.flags.value), t.state.name, t.queue.qsize()) for n, t in tm._tracked_users.items())),
            len(server.received), tuple(sorted(ev.key for ev in world.pending)))
        world.run()

        # ---- oracle ------------------------------------------------------------------------------------
        conn_closed_at = None
        from aioslsk.network.connection import ConnectionState
        lost = network.server_connection.state == ConnectionState.CLOSED
        frames = [(t, m) for t, _, m in server.received_t if isinstance(m, (AddUser.Request, RemoveUser.Request))]
        stuck = [ev for ev in world.pending if ev.held or ev.lost]
        for user in ('a', 'b'):
            # reference fold in call order
            ref: set = set()
            steps = []          # expected frame kinds from set transitions, with the call time
            for t, op, fl, u, _ in call_log:
                if u != user:
                    continue
                before = bool(ref)
                if op == 't':
                    ref.add(fl)
                else:
                    ref.discard(fl)
                if bool(ref) != before:
                    steps.append(('add' if ref else 'remove', t))
            got = [(k, t) for t, k, u, _ in writes if u == user]
            if lost or stuck:
                # after a server loss (or with frames withheld for ever) only a prefix can have reached the server;
                # nothing may be sent that the fold does not contain
                pass
            # match: walk the observed frames; each is either the next expected step or a justified retry
            i = 0
            last_add_t = None
            n_adds = 0
            ok = True
            for kind, t in got:
                if i < len(steps) and steps[i][0] == kind:
                    i += 1
                    if kind == 'add':
                        last_add_t = t
                        n_adds += 1
                    continue
                if kind == 'add' and last_add_t is not None:
                    # a retry: needs a failed previous attempt, the documented delay, and a reason to track
                    answer = effective(n_adds - 1, user)
                    n_adds += 1
                    need = {'silence': 20.0, 'notexists': 600.0, 'sendfail': 10.0, 'ambiguous': 10.0}.get(answer)
                    active = _ref_at(call_log, user, t) or _ref_at(call_log, user, t - 1e-6)
                    if need is None:
                        add('unjustified-add', f"user {user}: AddUser at t={t} although the previous attempt was "
                            f"answered '{answer}'", f'C15:extra-adduser:after-{answer}')
                    elif t - last_add_t < need - 1e-6:
                        add('retry-too-early', f"user {user}: retry {t - last_add_t:.2f}s after an attempt answered "
                            f"'{answer}' (documented {need}s)", f'C15:retry-too-early:{answer}')
                    elif not active:
                        add('retry-without-reason', f"user {user}: retry at t={t} with an empty reason set",
                            'C15:retry-without-reason')
                    last_add_t = t
                    continue
                ok = False
                add('unexpected-frame', f"user {user}: server saw {got}, reason-set transitions {steps} (calls "
                    f"{[c for c in call_log if c[3] == user]})", f'C15:unexpected-frame:{kind}')
                break
            if ok and i < len(steps) and not lost and not stuck and not world.pending:
                add('missing-frame', f"user {user}: server saw {got}, reason-set transitions {steps}",
                    f'C15:missing-frame:{steps[i][0]}')
            # settled state (only if the world had time to settle before the horizon)
            last_activity = max([w[0] for w in writes] + [x[0] for x in seen_answers] + [c[0] for c in call_log] + [0.0])
            settled = not world.pending and last_activity < horizon - 25.0
            if not lost and not stuck and settled:
                flags = users.get_tracking_flags(user)
                want = TrackingFlag(0)
                for fl in ref:
                    want |= FLAGS[fl]
                if flags != want:
                    add('flags-differ', f"user {user}: get_tracking_flags={flags!r}, fold of the calls={want!r} "
                        f"(calls {[c[1:4] for c in call_log if c[3] == user]}, frames {got})",
                        'C15:call-lost' if want and not flags else 'C15:flags-differ')
                # a failed attempt is retried after the documented delay while a reason remains
                adds_u = [w for w in writes if w[1] == 'add' and w[2] == user]
                if adds_u and ref:
                    last_eff = effective(len(adds_u) - 1, user)
                    need = {'silence': 20.0, 'notexists': 600.0, 'ambiguous': 20.0}.get(last_eff)
                    tracked_now = users.get_tracking_state(user) == TrackingState.TRACKED
                    if last_eff == 'ambiguous' and tracked_now:
                        need = None     # the answer that fell on the very instant of the time-out was accepted
                    if need is not None and adds_u[-1][0] + need + 1.0 < world.now():
                        add('retry-missing', f"user {user}: attempt at t={adds_u[-1][0]} amounted to '{last_eff}', "
                            f"reasons {sorted(ref)} remain, no retry by t={world.now()}", f'C15:retry-missing:{last_eff}')
                state = users.get_tracking_state(user)
                n_w = sum(1 for w in writes if w[1] == 'add' and w[2] == user)
                last_answer = effective(n_w - 1, user) if n_w else None
                want_tracked = bool(ref) and last_answer == 'exists'
                if last_answer == 'ambiguous':
                    pass
                elif (state == TrackingState.TRACKED) != want_tracked:
                    add('state-differs', f"user {user}: state {state.name}, reasons {sorted(ref)}, last answer "
                        f"{last_answer}", f'C15:state-differs:{state.name}')
        if lost:
            tm = users._tracking_manager
            live = [t.get_name() for t in world.live_tasks() if 'tracking' in repr(t.get_coro()) or 'retry' in repr(t.get_coro())]
            if tm._tracked_users or live:
                # calls made after the loss may legitimately create new entries; only judge if none was made
                after = [c for c in call_log if closed_at and c[0] >= closed_at[0] - 1e-9]
                if not after:
                    add('leftover-after-loss', f"entries {list(tm._tracked_users)} tasks {live}",
                        'C15:leftover-after-loss')
        from ..world import find_await_cycle
        cyc = find_await_cycle(world.loop.all_tasks_created)
        if cyc:
            add('await-cycle', f"tasks waiting for each other for ever: {[repr(t.get_coro())[:70] for t in cyc]}",
                'C15:await-cycle')
        unret = world.unretrieved_task_exceptions()
        if unret:
            add('task-exception', unret[0], 'C15:task-exception:' + unret[0].split(':', 1)[1].strip()[:30])
        if world.loop_errors():
            add('loop-error', world.loop_errors()[0], 'C15:loop-error')
        return {'violations': violations,
                'obs': (tuple(call_log), tuple(w[:3] for w in writes)),
                'transitions': world.loop.batches, 'states': set(world.state_keys), 'trace': list(world.trace),
                'nontrivial': bool(writes)}
    finally:
        world.close()


def _ref_at(call_log, user, t):
    ref = set()
    for ct, op, fl, u, _ in call_log:
        if u != user or ct > t + 1e-9:
            continue
        if op == 't':
            ref.add(fl)
        else:
            ref.discard(fl)
    return bool(ref)


def _closed_time(world):
    for o in world.obs:
        pass
    return float('inf')


def _canonical(seq):
    """first mention of a user is 'a', first mention of a flag is 'R', second 'F' (renaming symmetry)"""
    umap, fmap = {}, {}
    out = []
    for c in seq:
        if c[2] not in umap:
            umap[c[2]] = 'ab'[len(umap)]
        if c[1] not in fmap:
            fmap[c[1]] = 'RFT'[len(fmap)]
        u, f = umap[c[2]], fmap[c[1]]
        out.append(c[0] + f + u)
    return tuple(out) == tuple(seq)


def scenarios(tier: str):
    symbols = [op + fl + u for op in 'tu' for fl in ('RF' if tier == 'quick' else 'RFT') for u in 'ab']
    maxlen = 4 if tier == 'quick' else 5
    seqs = []
    for n in range(1, maxlen + 1):
        for seq in itertools.product(symbols, repeat=n):
            if seq[0][0] != 't' or not _canonical(seq):
                continue
            # an untrack of a user that was never tracked before is a no-op by definition: keep only a few
            seqs.append(list(seq))
    if tier != 'quick':
        one = [op + fl + 'a' for op in 'tu' for fl in 'RFT']
        for n in (6, 7):
            for seq in itertools.product(one, repeat=n):
                if seq[0] == 'tRa' and _canonical(seq) and seq.count('tRa') + seq.count('uRa') >= n - 2:
                    seqs.append(list(seq))
    out = []
    scripts = [['exists'], ['silence', 'exists'], ['notexists'], ['exists', 'silence', 'exists'],
               ['silence', 'silence', 'exists'], ['silence', 'notexists']]
    for seq in seqs:
        for script in scripts:
            if len(script) == 3 and script[0] == 'silence' and len(seq) > 2:
                continue
            if script == ['silence', 'notexists'] and len(seq) > 1:
                continue
            if script != ['exists'] and len(seq) > 3 and tier == 'quick':
                continue
            if script == ['notexists'] and len(seq) > 2:
                continue
            horizon = 90.0 if 'notexists' not in script else 660.0
            out.append({'calls': seq, 'script': script, 'horizon': horizon})
    # the friend reason arriving through the friend list of the settings
    for seq in (['AFa'], ['AFa', 'DFa'], ['tRa', 'AFa', 'uRa'], ['tRa', 'AFa', 'uRa', 'DFa'], ['AFa', 'tRa', 'DFa'],
                ['AFa', 'tRa', 'DFa', 'uRa'], ['AFa', 'tFa', 'DFa'], ['tRa', 'AFb', 'uRa', 'DFb']):
        out.append({'calls': seq, 'script': ['exists'], 'horizon': 90.0})
        if len(seq) <= 3:
            out.append({'calls': seq, 'script': ['silence', 'exists'], 'horizon': 90.0})
    for seq in ([['tRa'], ['tRa', 'uRa'], ['tRa', 'tFb'], ['tRa', 'uRa', 'tRa']]):
        out.append({'calls': seq, 'script': ['exists'], 'loss': True, 'horizon': 40.0})
        out.append({'calls': seq, 'script': ['silence', 'exists'], 'loss': True, 'horizon': 40.0})
        out.append({'calls': seq, 'script': ['sendfail', 'exists'], 'horizon': 40.0, 'loss': False, 'sendfail': True})
    return out


def weight(params, tier):
    return len(params['calls']) * (3 if params['script'] != ['exists'] else 1)


def run_scenario(params: dict, tier: str) -> dict:
    bound = 1
    cheap = params['script'] == ['exists'] and not params.get('loss')
    if cheap and (len(params['calls']) <= 2 or (tier != 'quick' and len(params['calls']) <= 4)):
        bound = 2      # retry scripts keep producing time-outs: the second deviation is reserved for the plain script
    res = explore(lambda ch: run_one(params, ch), bound=bound, max_exec=100000)
    return {'executions': res.executions, 'violations': res.violations, 'states': res.states,
            'transitions': res.transitions, 'outcomes': list(res.outcomes), 'nontrivial': list(res.nontrivial),
            'capped': res.capped, 'bound': res.bound_completed, 'samples': res.samples}


def replay(params: dict, choices: list, tier: str = 'quick') -> dict:
    out = run_one(params, Chooser(choices))
    return {'violations': [str(v) for v in out['violations']], 'trace': out['trace'], 'obs': out['obs']}
