"""C18 — search results reach only live requests; removal and time-outs are exact.

(a) real ``SearchManager`` + ``Timer`` + ``Network`` with a scripted server and
    scripted peers that deliver ``PeerSearchReply``; the explorer orders replies,
    removals and timer expiries (incl. the same instant / same iteration).
(b) the ``Timer`` API itself: every op sequence over {start, cancel,
    reschedule, yield, tick} against a one-variable reference model.
"""
from __future__ import annotations
import asyncio
import ctypes
import itertools

from ..common import ERRORS, install_virtual_time, make_settings
from ..world import World, Violation, EnvEvent
from ..simnet import SimNet
from ..actors import ScriptedServer, ScriptedPeer
from ..explore import Chooser, explore

from aioslsk.network.network import Network
from aioslsk.events import (
    EventBus, MessageReceivedEvent, SearchRequestRemovedEvent, SearchRequestSentEvent, SearchResultEvent,
    SessionDestroyedEvent, SessionInitializedEvent)
from aioslsk.search.manager import SearchManager
from aioslsk.tasks import Timer
from aioslsk.protocol.messages import Login, PeerSearchReply, WishlistInterval
from aioslsk.session import Session
from aioslsk.user.model import User

PROPERTY = 'C18'
LEVEL = 'model_checking'
RULE = ("(a) scenario = settings x op sequence over {search, room search, user search, wishlist interval, remove #i, "
        "reply to #i / unknown ticket}; every schedule within the deviation bound is executed on the real "
        "SearchManager; (b) every Timer op sequence up to the length bound; distinct = distinct observation logs")
ASSUMPTIONS = [
    "VLoop reproduces asyncio's iteration ordering; virtual clock",
    "a removal or reply that falls on the very instant of a time-out may be ordered either way",
    "ticket wrap-around is exercised by moving the real generator's counter next to 2^32, not by 2^32 requests",
]


class Obs:
    def __init__(self, world, bus):
        self.world = world
        self.registered: dict[int, dict] = {}   # ticket -> info
        self.sent: list[dict] = []
        self.expect_result = None
        self.violations: list[Violation] = []
        world.keep.append(self)
        bus.register(MessageReceivedEvent, self.on_message, priority=0)
        bus.register(SearchRequestSentEvent, self.on_sent)
        bus.register(SearchRequestRemovedEvent, self.on_removed)
        bus.register(SearchResultEvent, self.on_result)

    def _flush_expect(self):
        if self.expect_result is not None:
            t = self.expect_result
            self.expect_result = None
            self.violations.append(Violation(
                'result-not-reported', f"reply for registered ticket {t} produced no SearchResultEvent",
                signature='C18:result-not-reported'))

    def on_sent(self, event):
        req = event.query
        now = self.world.now()
        info = {'ticket': req.ticket, 't_sent': now, 'type': req.search_type.name, 'removed_events': [],
                'user_removed_at': None, 'req': req}
        if req.ticket in self.registered:
            self.violations.append(Violation(
                'duplicate-live-ticket', f"ticket {req.ticket} issued while a request with it is live",
                signature='C18:duplicate-live-ticket'))
        if not (0 <= req.ticket <= 0xFFFFFFFF):
            self.violations.append(Violation('ticket-range', f"ticket {req.ticket}", signature='C18:ticket-range'))
        self.registered[req.ticket] = info
        self.sent.append(info)
        self.world.log('sent', req.ticket, req.search_type.name)

    def on_removed(self, event):
        req = event.query
        self.world.log('removed-event', req.ticket)
        for info in self.sent:
            if info['req'] is req:
                info['removed_events'].append(self.world.now())
        if self.registered.get(req.ticket, {}).get('req') is req:
            del self.registered[req.ticket]

    def on_message(self, event):
        msg = event.message
        if isinstance(msg, PeerSearchReply.Request):
            self._flush_expect()
            live = msg.ticket in self.registered
            self.world.log('reply', msg.ticket, msg.username, 'live' if live else 'not-live')
            if live:
                self.expect_result = msg.ticket

    def on_result(self, event):
        t = event.result.ticket
        self.world.log('result', t, event.query.ticket)
        if self.expect_result == t and event.query.ticket == t and \
                self.registered.get(t, {}).get('req') is event.query:
            self.expect_result = None
        else:
            self.violations.append(Violation(
                'result-for-dead-request', f"SearchResultEvent(ticket {t}, request {event.query.ticket}) although "
                f"no live request was answered (registered={sorted(self.registered)})",
                signature='C18:result-for-dead-request'))

    def user_removed(self, ticket):
        info = self.registered.pop(ticket, None)
        if info is not None:
            info['user_removed_at'] = self.world.now()


def _set_generator_counter(gen, value: int):
    """Moves the counter of the *real* ticket generator (a suspended generator
    frame) next to the wrap"""
    frame = gen.gi_frame
    frame.f_locals['idx'] = value
    ctypes.pythonapi.PyFrame_LocalsToFast(ctypes.py_object(frame), ctypes.c_int(0))


def run_one(params: dict, chooser, deviations=True) -> dict:
    ops = params['ops']
    ERRORS.records.clear()
    world = World(chooser=chooser, horizon=params.get('horizon', 10.5 if 'W' in ops else 13.0), deviations=False,
                  slowcpu=True)      # also a late loop: a due timer fires in the iteration in which a reply is processed
    violations: list[Violation] = []
    try:
        net = SimNet(world)
        install_virtual_time(world)
        server = ScriptedServer(net)
        settings = make_settings(
            obfuscated_port=0,
            searches={'send': {'request_timeout': params['rt'], 'wishlist_request_timeout': params['wt']},
                      'wishlist': [{'query': 'wish', 'enabled': True}, {'query': 'off', 'enabled': False},
                                   {'query': 'wish two', 'enabled': True}]})
        bus = EventBus()
        network = Network(settings, bus)
        manager = SearchManager(settings, bus, None, None, network)
        world.keep.append(manager)
        obs = Obs(world, bus)
        if params.get('slow'):
            # a listener of the application that takes a few iterations (user code may await in its listeners)
            async def slow_sent_listener(event):
                await asyncio.sleep(0)
                await asyncio.sleep(0)
                await asyncio.sleep(0)
                await asyncio.sleep(float(params.get('slow_for', 0)))
            world.keep.append(slow_sent_listener)
            bus.register(SearchRequestSentEvent, slow_sent_listener)
        sessions = [0]

        async def new_session():
            # the server connection was lost and a new logon succeeded: managers are told through these two events
            if sessions[0]:
                await bus.emit(SessionDestroyedEvent(sessions[0]))
            sessions[0] = Session(User('me'), '10.0.0.1', 'hi', 157, 100)
            await bus.emit(SessionInitializedEvent(sessions[0], Login.Response(
                success=True, greeting='hi', ip='10.0.0.1', md5hash='x' * 32, privileged=False)))
        if params.get('wrap'):
            next(manager._ticket_generator)
            _set_generator_counter(manager._ticket_generator, 0xFFFFFFFE)

        async def setup():
            await network.initialize()
            network.server_connection.start_reader_task()
        world.op('setup', 'init', setup, record=False)
        world.run_default_until_idle()

        world.deviations = deviations
        peer_n = [0]

        def make_reply(i):
            def fire():
                ticket = obs.sent[i]['ticket'] if i is not None else 0xDEAD
                peer_n[0] += 1
                name = f'peer{peer_n[0]}'
                peer = ScriptedPeer(net, name, f'10.0.2.{peer_n[0]}', listen=False)
                pc = peer.connect_init(60000, 'P')
                pc.send(PeerSearchReply.Request(name, ticket, [], True, 10, 0))
            guard = (lambda: len(obs.sent) > i) if i is not None else None
            return fire, guard

        for n, op in enumerate(ops):
            kind = op[0]
            if kind in 'SRU':
                async def do_search(kind=kind):
                    if kind == 'S':
                        req = await manager.search('query')
                    elif kind == 'R':
                        req = await manager.search_room('room', 'query')
                    else:
                        req = await manager.search_user('bob', 'query')
                    return req.ticket
                world.op('u', f'{n}{kind}', do_search)
            elif kind == 'L':
                world.op('u', f'{n}L', new_session, record=False)
            elif kind in 'XY':
                i = int(op[1])
                thread = 'u' if kind == 'X' else 'v'      # Y: from another task of the application, concurrently

                async def do_remove(i=i):
                    if len(obs.sent) <= i:
                        return 'not-issued'
                    ticket = obs.sent[i]['ticket']
                    if manager.requests.get(ticket) is not obs.sent[i]['req']:
                        return 'gone'
                    manager.remove_request(ticket)
                    obs.user_removed(ticket)
                    world.log('user-removed', ticket)
                    return 'removed'
                world.op(thread, f'{n}{kind}{i}', do_remove, guard=(lambda i=i: len(obs.sent) > i) if kind == 'Y' else None)
            elif kind == 'P':
                i = None if op[1] == '?' else int(op[1])
                fire, guard = make_reply(i)
                world.post(EnvEvent('inject', f'reply:{n}:{op[1]}', fire, chan=None, guard=guard))
            elif kind == 'W':
                def send_w():
                    server.send(WishlistInterval.Response(3))
                world.post(EnvEvent('inject', f'wishlist-interval:{n}', send_w, chan=('srvinject',)))
            elif kind == 'T':
                async def tick(d=float(op[1:])):
                    await asyncio.sleep(d)
                world.op('u', f'{n}{op}', tick, record=False)
        world.state_fn = lambda: (
            tuple(sorted(manager.requests)), tuple(sorted(obs.registered)),
            tuple(sorted(ev.key for ev in world.pending)), len(world.live_tasks()))
        world.run()
        obs._flush_expect()
        violations.extend(obs.violations)

        # time-outs exact ---------------------------------------------------------------------------
        end = world.now()
        late_loop = any(str(t).startswith('slowcpu') for t in world.trace)
        for info in obs.sent:
            timeout = params['rt'] if info['type'] != 'WISHLIST' else (params['wt'] if params['wt'] >= 0 else 3)
            ev = info['removed_events']
            ura = info['user_removed_at']
            if not timeout:
                if ev:
                    violations.append(Violation(
                        'removed-without-timeout', f"request {info['ticket']} without time-out was removed at {ev}",
                        signature='C18:removed-without-timeout'))
                continue
            deadline = info['t_sent'] + timeout
            if ura is not None and ura < deadline - 1e-9:
                continue     # user removal: only "no result, no error" is stated (checked elsewhere)
            if ura is not None and abs(ura - deadline) <= 1e-9:
                if len(ev) > 1:
                    violations.append(Violation('removed-twice', f"{info['ticket']}: {ev}", signature='C18:removed-twice'))
                continue
            if deadline > end + 1e-9:
                if ev:
                    violations.append(Violation(
                        'removed-early', f"request {info['ticket']} sent {info['t_sent']} timeout {timeout} removed at {ev}",
                        signature='C18:removed-early'))
                continue
            if late_loop:
                # a late loop (slowcpu) delays timer tasks legitimately: exact times are judged on the other schedules
                if len(ev) > 1:
                    violations.append(Violation('removed-twice', f"{info['ticket']}: {ev}", signature='C18:removed-twice'))
                continue
            if len(ev) != 1:
                violations.append(Violation(
                    'removal-count', f"request {info['ticket']} ({info['type']}, sent {info['t_sent']}, timeout "
                    f"{timeout}) got {len(ev)} removal events {ev}; still registered: "
                    f"{info['ticket'] in manager.requests}", signature=f'C18:removal-count:{len(ev)}'))
            elif abs(ev[0] - deadline) > 1e-6:
                violations.append(Violation(
                    'removal-time', f"request {info['ticket']} removed at {ev[0]} instead of {deadline}",
                    signature='C18:removal-time'))
        # model vs manager
        if set(manager.requests) != set(obs.registered):
            violations.append(Violation(
                'registry-mismatch', f"manager.requests={sorted(manager.requests)} model={sorted(obs.registered)}",
                signature='C18:registry-mismatch'))
        unret = world.unretrieved_task_exceptions()
        if unret:
            violations.append(Violation(
                'task-exception', unret[0], signature='C18:task-exception:' + ''.join(c for c in unret[0].split(':', 1)[1].strip()[:30] if not c.isdigit())))
        if world.loop_errors():
            violations.append(Violation('loop-error', world.loop_errors()[0], signature='C18:loop-error'))
        reader = network.server_connection._reader_task
        if reader is None or reader.done():
            violations.append(Violation(
                'server-reader-dead', 'the server reader task ended while the connection is open',
                signature='C18:server-reader-dead'))
        if ERRORS.records:
            violations.append(Violation('error-log', ERRORS.records[0], signature='C18:error-log:' + ERRORS.records[0][:60]))
        return {'violations': violations, 'obs': list(world.obs), 'transitions': world.loop.batches,
                'states': set(world.state_keys), 'trace': list(world.trace),
                'nontrivial': any(o[1] in ('reply', 'removed-event') for o in world.obs)}
    finally:
        world.close()


# --- Timer API ---------------------------------------------------------------------------------------------

def run_timer(seq: tuple) -> dict:
    """Sequential op sequence on one Timer; returns violations"""
    world = World(horizon=30.0, deviations=False)
    try:
        fired: list[float] = []

        async def callback():
            fired.append(world.now())
        timer = Timer(2.0, callback)
        model = {'armed': None, 'timeout': 2.0, 'expect': []}

        def settle(now):
            if model['armed'] is not None and model['armed'] <= now + 1e-9:
                model['expect'].append(model['armed'])
                model['armed'] = None

        async def body():
            for op in seq:
                now = world.now()
                settle(now)
                if op == 'start':
                    if model['armed'] is not None:
                        continue      # starting a running timer is not defined; skipped in both
                    timer.start()
                    model['armed'] = now + model['timeout']
                elif op == 'cancel':
                    timer.cancel()
                    model['armed'] = None
                elif op == 'resched':
                    timer.reschedule()
                    model['armed'] = now + model['timeout']
                elif op == 'resched3':
                    timer.reschedule(3.0)
                    model['timeout'] = 3.0
                    model['armed'] = now + 3.0
                elif op == 'resched05':
                    timer.reschedule(0.5)
                    model['timeout'] = 0.5
                    model['armed'] = now + 0.5
                elif op == 'yield':
                    await asyncio.sleep(0)
                elif op == 'tick1':
                    await asyncio.sleep(0.7)
                elif op == 'tick2':
                    # lands exactly on a 2 s deadline armed at the same instant: the timer was armed
                    # first, so it fires first
                    await asyncio.sleep(2.2)
            await asyncio.sleep(10.0)
            settle(world.now())
        world.op('u', 'seq', body, record=False)
        world.run()
        violations = []
        if [round(x, 6) for x in fired] != [round(x, 6) for x in model['expect']]:
            violations.append(Violation(
                'timer-fires', f"ops {list(seq)}: fired at {fired}, reference {model['expect']}",
                signature='C18:timer:' + ('superseded-deadline-fired' if len(fired) > len(model['expect']) else 'missed-or-wrong-time')))
        unret = world.unretrieved_task_exceptions()
        if unret:
            violations.append(Violation('timer-task-exception', unret[0], signature='C18:timer:task-exception'))
        return {'violations': violations, 'obs': (tuple(seq), tuple(fired)), 'transitions': world.loop.batches}
    finally:
        world.close()


TIMER_OPS = ['start', 'cancel', 'resched', 'resched3', 'resched05', 'yield', 'tick1', 'tick2']


# --- scenario space --------------------------------------------------------------------------------------------

def _op_sequences(tier):
    search_ops = ['S', 'R', 'U']
    seqs = []
    base = ['S', 'W', 'X0', 'P0', 'P?', 'X1', 'P1', 'T5']
    maxlen = 3 if tier == 'quick' else 4
    for n in range(1, maxlen + 1):
        for seq in itertools.product(base, repeat=n):
            # well-formed: X1/P1 need two searches somewhere, X0/P0 need one; at least one search or W
            ns = sum(1 for o in seq if o in ('S',)) + (1 if 'W' in seq else 0)
            if ns == 0:
                continue
            if any(o in ('X1', 'P1') for o in seq) and ns < 2:
                continue
            seqs.append(list(seq))
    # longer, curated: removal / reply / expiry races around two live requests and wishlist rounds
    curated = [
        ['S', 'S', 'X0', 'P0'], ['S', 'S', 'P1', 'X1'], ['S', 'P0', 'X0', 'P0'], ['S', 'X0', 'S', 'P0'],
        ['S', 'T5', 'P0', 'S'], ['S', 'T5', 'S', 'P1'], ['W', 'W', 'P0', 'X0'], ['W', 'S', 'X1', 'P1'],
        ['S', 'W', 'W', 'P0'], ['S', 'X0', 'T5', 'P0'], ['S', 'S', 'T5', 'P1'], ['W', 'P0', 'T5', 'P0'],
        ['S', 'P?', 'P0', 'P?'], ['S', 'P0', 'P0', 'X0'], ['W', 'X0', 'T5', 'P1'],
    ]
    if tier != 'quick':
        curated += [c + [x] for c in curated for x in ('P0', 'X0', 'T5', 'S')]
    seqs.extend(curated)
    # the other two search kinds share the registration path: a few sequences each
    for k in ('R', 'U'):
        for tail in (['P0'], ['X0', 'P0'], ['P0', 'P0'], ['T5', 'P0'], ['P0', 'X0', 'T5']):
            seqs.append([k] + tail)
    return seqs


def scenarios(tier: str):
    out = []
    for rt, wt in ((0, -1), (5, -1), (5, 0), (5, 3)) if tier == 'quick' else ((0, -1), (5, -1), (5, 0), (5, 3), (0, 3), (3, -1)):
        for seq in _op_sequences(tier):
            if 'W' not in seq and wt != -1:
                continue
            if rt == 0 and wt == -1 and 'W' not in seq and 'T5' in seq:
                continue
            out.append({'kind': 'search', 'rt': rt, 'wt': wt, 'ops': seq})
    for seq in (['S', 'S', 'S', 'P0', 'P1'], ['S', 'S', 'S', 'X0', 'P2', 'P0']):
        out.append({'kind': 'search', 'rt': 5, 'wt': -1, 'ops': seq, 'wrap': True})
    # a new session (logon after a server loss) between searches
    for seq in (['L', 'S', 'L', 'S'], ['S', 'L', 'S', 'P0'], ['S', 'L', 'S', 'P1'], ['L', 'S', 'S', 'L', 'S', 'P0'],
                ['S', 'L', 'S', 'X1', 'P0'], ['S', 'L', 'S', 'T5'], ['W', 'L', 'S', 'P0'], ['L', 'S', 'T5', 'L', 'S']):
        for rt in (0, 5):
            out.append({'kind': 'search', 'rt': rt, 'wt': -1 if 'W' not in seq else 3, 'ops': seq})
    # removal from another task while search() is still announcing the request to (slow) listeners
    for seq in (['S', 'Y0'], ['S', 'Y0', 'T5'], ['S', 'S', 'Y1', 'P1'], ['S', 'Y0', 'P0'], ['S', 'Y0', 'S', 'P1']):
        out.append({'kind': 'search', 'rt': 5, 'wt': -1, 'ops': seq, 'slow': True})
        out.append({'kind': 'search', 'rt': 5, 'wt': -1, 'ops': seq, 'slow': True, 'slow_for': 1.0})
    # timer sequences, chunked by first two ops
    maxlen = 5 if tier == 'quick' else 7
    for a in TIMER_OPS:
        for b in TIMER_OPS:
            out.append({'kind': 'timer', 'prefix': [a, b], 'maxlen': maxlen})
    return out


def weight(params, tier):
    return 50 if params['kind'] == 'timer' else len(params['ops'])


def run_scenario(params: dict, tier: str) -> dict:
    if params['kind'] == 'timer':
        executions = 0
        violations = []
        outcomes = set()
        transitions = 0
        seen = set()
        sample = None
        for n in range(0, params['maxlen'] - 1):
            for tail in itertools.product(TIMER_OPS, repeat=n):
                seq = tuple(params['prefix']) + tail
                out = run_timer(seq)
                executions += 1
                transitions += out['transitions']
                outcomes.add(hash(out['obs']))
                sample = sample or {'timer_ops': list(seq), 'fired': list(out['obs'][1])}
                for v in out['violations']:
                    if v.signature not in seen:
                        seen.add(v.signature)
                        violations.append({'clause': v.clause, 'detail': v.detail, 'signature': v.signature,
                                           'choices': list(seq), 'deviations': []})
        return {'executions': executions, 'violations': violations, 'states': len(outcomes),
                'transitions': transitions, 'outcomes': [f't{o}' for o in outcomes], 'capped': False,
                'samples': [sample]}
    bound = 1 if (tier == 'quick' or len(params['ops']) > 4) else 2
    if tier == 'quick' and len(params['ops']) <= 2:
        bound = 2
    if 'W' in params['ops'] and (tier == 'quick' or len(params['ops']) > 2):
        bound = 1      # wishlist rounds keep producing timers: deviation 2 is left to short sequences in thorough
    res = explore(lambda ch: run_one(params, ch), bound=bound, max_exec=100000)
    return {'executions': res.executions, 'violations': res.violations, 'states': res.states,
            'transitions': res.transitions, 'outcomes': list(res.outcomes), 'nontrivial': list(res.nontrivial),
            'capped': res.capped, 'bound': res.bound_completed, 'samples': res.samples}


def replay(params: dict, choices: list, tier: str = 'quick') -> dict:
    if params['kind'] == 'timer':
        out = run_timer(tuple(choices))
        return {'violations': [str(v) for v in out['violations']], 'obs': out['obs']}
    out = run_one(params, Chooser(choices))
    return {'violations': [str(v) for v in out['violations']], 'trace': out['trace'], 'obs': out['obs']}
