"""C09 (schedules) — two or three downloads of equally named files from different
users through the real download path with lazily delivered executor jobs."""
from __future__ import annotations
import os
import shutil
import tempfile

from ..common import ERRORS
from ..world import Violation
from ..transferworld import TransferWorld
from ..explore import Chooser, explore

from aioslsk.transfer.state import TransferState

SCRATCH_ROOT = '/dev/shm' if os.path.isdir('/dev/shm') else tempfile.gettempdir()
USERS = [('bob', '10.0.9.1', 7301, '@@aaaaa\\music\\song.mp3'), ('carol', '10.0.9.2', 7302, '@@bbbbb\\other\\song.mp3'),
         ('dave', '10.0.9.3', 7303, '@@ccccc\\song.mp3')]


def run_one(params: dict, chooser) -> dict:
    ERRORS.records.clear()
    base = tempfile.mkdtemp(prefix='c09s-', dir=SCRATCH_ROOT)
    viols, sigs = [], set()

    def add(clause, detail, sig):
        if sig not in sigs:
            sigs.add(sig)
            viols.append(Violation(clause, detail, signature=sig))
    n = params['n']
    try:
        # the dimension explored is the relative order of the start-up steps (executor jobs, file connections):
        # early / reorder deviations; time-outs play no role here, so nothing is held back to a deadline
        tw = TransferWorld(base_dir=base, horizon=60.0, chooser=chooser, lazy_exec=True, hold=False,
                           settings={'transfers': {'report_interval': 30.0}})
        try:
            if params.get('existing'):
                with open(os.path.join(tw.download_dir, 'song.mp3'), 'wb') as fh:
                    fh.write(b'old')
            sources = {}
            for name, ip, port, path in USERS[:n]:
                r = tw.remote(name, ip, port)
                r.files[path] = (name.encode() * 40)[:100 + len(name)]
                sources[name] = r.files[path]
            tw.start(scan=False)
            slots = []
            for name, ip, port, path in USERS[:n]:
                async def dl(name=name, path=path):
                    return await tw.client.transfers.download(name, path)
                slots.append(tw.world.op(f'u-{name}', f'download-{name}', dl, record=False))

            def watch():
                active = [t for t in tw.client.transfers.get_downloads()
                          if t.state.VALUE in (TransferState.State.INITIALIZING, TransferState.State.DOWNLOADING)
                          and t.local_path]
                paths = [t.local_path for t in active]
                if len(set(paths)) != len(paths):
                    add('same-local-path', f"active downloads {[(t.username, t.local_path) for t in active]}",
                        'C09:same-local-path')
            tw.world.boundary_hooks.append(watch)
            tw.world.state_fn = lambda: tuple(
                (t.username, t.state.VALUE.name, t.local_path, t.bytes_transfered) for t in tw.client.transfers.get_downloads())
            tw.world.deviations = True
            tw.world.run()
            done = tw.client.transfers.get_downloads()
            for t in done:
                if t.state.VALUE == TransferState.State.COMPLETE and t.local_path and os.path.exists(t.local_path):
                    data = open(t.local_path, 'rb').read()
                    if data != sources[t.username]:
                        add('finished-file-differs', f"{t.username}: {t.local_path} holds {data[:30]!r}... "
                            f"({len(data)} bytes), source {sources[t.username][:30]!r}... ({len(sources[t.username])})",
                            'C09:finished-file-differs')
            if params.get('existing'):
                if open(os.path.join(tw.download_dir, 'song.mp3'), 'rb').read() != b'old':
                    add('clobbered', 'the pre-existing song.mp3 was modified', 'C09:clobbered')
            return {'violations': viols, 'obs': tuple(sorted((t.username, t.state.VALUE.name, os.path.basename(t.local_path or ''))
                                                             for t in done)),
                    'transitions': tw.world.loop.batches, 'states': set(tw.world.state_keys),
                    'trace': list(tw.world.trace)}
        finally:
            tw.close()
    finally:
        shutil.rmtree(base, ignore_errors=True)


def scenarios(tier: str):
    out = [{'kind': 'sched', 'n': 2, 'existing': False}, {'kind': 'sched', 'n': 2, 'existing': True}]
    if tier != 'quick':
        out.append({'kind': 'sched', 'n': 3, 'existing': False})
    return out


def run_scenario(params: dict, tier: str) -> dict:
    # three concurrent downloads at bound 2 are ~10^5 executions of 40 ms in one scenario: bound 2 is completed for
    # two downloads, three downloads are explored at bound 1
    bound = 1 if (tier == 'quick' or params.get('n', 2) >= 3) else 2
    res = explore(lambda ch: run_one(params, ch), bound=bound, max_exec=6000 if tier == 'quick' else 100000)
    return {'executions': res.executions, 'violations': res.violations, 'states': res.states,
            'transitions': res.transitions, 'outcomes': list(res.outcomes), 'capped': res.capped,
            'bound': res.bound_completed, 'samples': res.samples}


def replay(params: dict, choices: list, tier: str = 'quick') -> dict:
    out = run_one(params, Chooser(choices))
    return {'violations': [str(v) for v in out['violations']], 'trace': out['trace'], 'obs': out['obs']}
