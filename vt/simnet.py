"""In-memory network under real asyncio streams (DESIGN.md §2.1 ``SimNet``).

``asyncio.open_connection`` / ``asyncio.start_server`` are replaced by versions
that build real ``StreamReader`` / ``StreamReaderProtocol`` / ``StreamWriter``
objects over a ``MemTransport``.  Every write becomes a chunk in flight whose
delivery is an environment event of the world; connects, accepts, EOF and reset
are environment events as well.
"""
from __future__ import annotations
import asyncio
from typing import Callable, Optional

from .world import EnvEvent, World


class MemTransport(asyncio.Transport):
    """One endpoint of an in-memory duplex connection driven by a protocol"""

    def __init__(self, net: 'SimNet', conn: 'SimConn', side: int, sockname, peername):
        super().__init__(extra={'peername': peername, 'sockname': sockname, 'socket': None})
        self.net = net
        self.conn = conn
        self.side = side
        self._protocol: Optional[asyncio.Protocol] = None
        self._closing = False
        self._conn_lost = 0
        self._lost_called = False
        self.fail_writes: Optional[BaseException] = None   # next write raises on the socket
        self.eof_sent = False
        self.reading_paused = False
        self.slow_close = False      # close() cannot flush the send buffer (peer stopped reading): no connection_lost

    # -- asyncio.Transport API -------------------------------------------------------
    def set_protocol(self, protocol):
        self._protocol = protocol

    def get_protocol(self):
        return self._protocol

    def is_closing(self):
        return self._closing

    def is_reading(self):
        return not self._closing and not self.reading_paused

    def pause_reading(self):
        self.reading_paused = True

    def resume_reading(self):
        self.reading_paused = False

    def get_write_buffer_size(self):
        return 0

    def get_write_buffer_limits(self):
        return (0, 65536)

    def set_write_buffer_limits(self, high=None, low=None):
        pass

    def can_write_eof(self):
        return True

    def write_eof(self):
        if self.eof_sent or self._closing:
            return
        self.eof_sent = True
        self.conn.enqueue_eof(self.side)

    def write(self, data):
        if not isinstance(data, (bytes, bytearray, memoryview)):
            raise TypeError(type(data))
        if self.eof_sent:
            raise RuntimeError('Cannot call write() after write_eof()')
        if not data:
            return
        if self._conn_lost:
            self._conn_lost += 1
            return
        if self.fail_writes is not None:
            exc = self.fail_writes
            self._force_close(exc)
            return
        self.conn.enqueue_data(self.side, bytes(data))

    def writelines(self, list_of_data):
        self.write(b''.join(list_of_data))

    def close(self):
        if self._closing:
            return
        self._closing = True
        self._conn_lost += 1
        if self.slow_close:
            return          # stays half closed until aborted (the library's own disconnect time-out gives up waiting)
        self.conn.enqueue_eof(self.side)
        self.conn.closed_by(self.side)
        self.net.world.loop.call_soon(self._call_connection_lost, None)

    def abort(self):
        self._force_close(None)

    # -- helpers -----------------------------------------------------------------------
    def _force_close(self, exc):
        if self._conn_lost and self._closing:
            return
        self._closing = True
        self._conn_lost += 1
        self.conn.enqueue_reset(self.side)
        self.conn.closed_by(self.side)
        self.net.world.loop.call_soon(self._call_connection_lost, exc)

    def _call_connection_lost(self, exc):
        if self._lost_called:
            return
        self._lost_called = True
        try:
            if self._protocol is not None:
                self._protocol.connection_lost(exc)
        finally:
            self._protocol = None

    # environment side
    def env_reset(self, exc: Optional[BaseException] = None):
        """The kernel reports an error on this socket (peer reset)"""
        if self._lost_called or (self._closing and self._conn_lost):
            return
        self._closing = True
        self._conn_lost += 1
        self.conn.closed_by(self.side)
        self._call_connection_lost(exc or ConnectionResetError(104, 'Connection reset by peer'))


class ActorEndpoint:
    """Endpoint driven by plain callbacks (scripted peers / server)"""

    def __init__(self, net: 'SimNet', conn: 'SimConn', side: int, sockname, peername, handler):
        self.net = net
        self.conn = conn
        self.side = side
        self.sockname = sockname
        self.peername = peername
        self.handler = handler
        self.closed = False
        self.got_eof = False
        self.got_reset = False
        self.received = bytearray()

    def send(self, data: bytes):
        if self.closed:
            return
        self.conn.enqueue_data(self.side, bytes(data))

    def close(self):
        if self.closed:
            return
        self.closed = True
        self.conn.enqueue_eof(self.side)
        self.conn.closed_by(self.side)

    def reset(self):
        if self.closed:
            return
        self.closed = True
        self.conn.enqueue_reset(self.side)
        self.conn.closed_by(self.side)


class SimConn:
    """A duplex connection; side 0 is the connecting end, side 1 the accepting end"""

    def __init__(self, net: 'SimNet', cid: int, addr):
        self.net = net
        self.cid = cid
        self.addr = addr
        self.ends: list = [None, None]
        self.side_closed = [False, False]
        self.dir_dead = [False, False]   # direction written by side i no longer reaches the other end
        self.accepted = True
        self.bytes_sent = [0, 0]         # written by side i
        self.bytes_delivered = [0, 0]    # delivered *to* side i
        self.sent_log: list[bytearray] = [bytearray(), bytearray()]   # everything side i wrote
        self.cut_after: list[Optional[tuple]] = [None, None]   # (nbytes, 'eof'|'reset') applied on data *to* side i
        self.segment: Optional[Callable[[bytes], list[bytes]]] = None
        self.label = f'c{cid}'
        self.coalesce = False
        self.early_ok = [True, True]     # may chunks written by side i be released while the loop is busy
        self.on_write: Optional[Callable[[int, bytes], None]] = None

    # writer side ---------------------------------------------------------------------------
    def _chan(self, src: int):
        return (self.cid, src)

    def enqueue_data(self, src: int, data: bytes):
        dst = 1 - src
        self.bytes_sent[src] += len(data)
        self.sent_log[src] += data
        if self.on_write is not None:
            self.on_write(src, data)
        if self.side_closed[dst] or self.dir_dead[src]:
            # the other end is gone: these bytes vanish and the peer's stack answers RST, so the *next* write on
            # this socket fails
            me = self.ends[src]
            if isinstance(me, MemTransport) and me.fail_writes is None and self.side_closed[dst]:
                me.fail_writes = ConnectionResetError(104, 'Connection reset by peer')
            return
        chunks = self.segment(data) if self.segment else [data]
        world = self.net.world
        if self.coalesce and not self.segment:
            # merge into the youngest undelivered chunk of this direction
            for ev in reversed(world.pending):
                if ev.chan == self._chan(src):
                    if ev.kind == 'deliver' and not ev.held and not ev.lost:
                        ev.fire.__self__.data += data   # type: ignore[attr-defined]
                        return
                    break
        for chunk in chunks:
            d = _Delivery(self, src, chunk)
            world.post(EnvEvent(
                'deliver', f'deliver:{self.label}:{src}>{dst}:{len(chunk)}', d.fire,
                chan=self._chan(src), guard=self._guard(dst), losable=self.net.losable,
                early_ok=self.early_ok[src]))

    def enqueue_eof(self, src: int):
        dst = 1 - src
        if self.side_closed[dst]:
            return
        d = _Delivery(self, src, None, kind='eof')
        self.net.world.post(EnvEvent(
            'eof', f'eof:{self.label}:{src}>{dst}', d.fire, chan=self._chan(src), guard=self._guard(dst)))

    def enqueue_reset(self, src: int):
        dst = 1 - src
        if self.side_closed[dst]:
            return
        d = _Delivery(self, src, None, kind='reset')
        self.net.world.post(EnvEvent(
            'reset', f'reset:{self.label}:{src}>{dst}', d.fire, chan=self._chan(src), guard=self._guard(dst)))

    def _guard(self, dst: int):
        if dst == 1:
            return lambda: self.accepted
        return None

    def closed_by(self, side: int):
        self.side_closed[side] = True
        # nothing more can be delivered to a closed end
        world = self.net.world
        for ev in list(world.pending):
            if ev.chan == self._chan(1 - side):
                world.cancel_event(ev)

    # receiver side ---------------------------------------------------------------------------
    def deliver(self, src: int, data: Optional[bytes], kind: str):
        dst = 1 - src
        end = self.ends[dst]
        if self.side_closed[dst] or end is None:
            return
        if kind == 'data':
            cut = self.cut_after[dst]
            if cut is not None:
                room = cut[0] - self.bytes_delivered[dst]
                if room < len(data):
                    data = data[:max(room, 0)]
                    if data:
                        self._feed(end, dst, data)
                    self._cut(end, dst, cut[1])
                    return
            self._feed(end, dst, data)
            cut = self.cut_after[dst]
            if cut is not None and self.bytes_delivered[dst] >= cut[0]:
                self._cut(end, dst, cut[1])
        elif kind == 'eof':
            self._fault(end, dst, 'eof')
        else:
            self._fault(end, dst, 'reset')

    def _cut(self, end, dst, kind):
        """the connection breaks at this byte: a reset is seen by both ends, an EOF only by the receiver"""
        self.cut_after[dst] = None
        self._fault(end, dst, kind)
        if kind == 'reset':
            other = self.ends[1 - dst]
            if other is not None and not self.side_closed[1 - dst]:
                self._fault(other, 1 - dst, 'reset')

    def _feed(self, end, dst, data):
        self.bytes_delivered[dst] += len(data)
        if isinstance(end, MemTransport):
            if end._protocol is not None and not end._lost_called:
                end._protocol.data_received(data)
        else:
            end.received += data
            end.handler.on_data(end, data)

    def _fault(self, end, dst, kind):
        # the direction towards dst is dead from now on
        self.dir_dead[1 - dst] = True
        world = self.net.world
        for ev in list(world.pending):
            if ev.chan == self._chan(1 - dst):
                world.cancel_event(ev)
        if isinstance(end, MemTransport):
            if end._lost_called:
                return
            if kind == 'eof':
                proto = end._protocol
                if proto is not None:
                    keep_open = proto.eof_received()
                    if not keep_open:
                        end.close()
            else:
                end.env_reset()
        else:
            if kind == 'eof':
                end.got_eof = True
                end.handler.on_eof(end)
            else:
                end.got_reset = True
                end.closed = True
                self.side_closed[dst] = True
                end.handler.on_reset(end)


class _Delivery:
    __slots__ = ('conn', 'src', 'data', 'kind')

    def __init__(self, conn, src, data, kind='data'):
        self.conn = conn
        self.src = src
        self.data = data
        self.kind = kind

    def fire(self):
        self.conn.deliver(self.src, self.data, self.kind)


class SimServer:
    """What ``asyncio.start_server`` returns"""

    def __init__(self, net: 'SimNet', addr, cb):
        self.net = net
        self.addr = addr
        self.cb = cb
        self._serving = True
        self.sockets = []

    def is_serving(self):
        return self._serving

    def close(self):
        if self._serving:
            self._serving = False
            if self.net.listeners.get(self.addr) is self:
                del self.net.listeners[self.addr]

    async def wait_closed(self):
        return None

    async def start_serving(self):
        pass

    async def __aenter__(self):
        return self

    async def __aexit__(self, *exc):
        self.close()


class ActorListener:
    """A scripted listener: ``handler_factory(endpoint)`` returns the handler of
    each accepted connection"""

    def __init__(self, handler_factory):
        self.handler_factory = handler_factory


class SimNet:

    def __init__(self, world: World, local_ip: str = '10.0.0.1', losable: bool = False):
        self.world = world
        self.local_ip = local_ip
        self.listeners: dict = {}       # (ip, port) -> SimServer | ActorListener
        self.routes: dict = {}          # (ip, port) -> 'refuse' | 'hang' | ('alias', addr)
        self.bind_fail: set = set()
        self.conns: list[SimConn] = []
        self.connect_log: list[tuple] = []
        self.unresolved_connects: list[tuple] = []   # (host, port, future) of attempts still pending
        self._eph = 50000
        self.losable = losable
        self.default_route = 'refuse'
        self.on_accept = None      # callback(conn, library-side transport) when a library listener accepts
        self._patched = None
        self.install()
        world.closers.append(self.uninstall)

    # -- patching ---------------------------------------------------------------------------
    def install(self):
        self._patched = (asyncio.open_connection, asyncio.start_server)
        asyncio.open_connection = self.open_connection
        asyncio.start_server = self.start_server

    def uninstall(self):
        if self._patched:
            asyncio.open_connection, asyncio.start_server = self._patched
            self._patched = None

    # -- addressing ---------------------------------------------------------------------------
    def _resolve(self, host, port):
        addr = (host, port)
        if addr in self.listeners:
            return addr
        # listening on 0.0.0.0 is reachable through the local ip
        if (('0.0.0.0', port) in self.listeners) and host == self.local_ip:
            return ('0.0.0.0', port)
        return addr

    def _ephemeral(self):
        self._eph += 1
        return self._eph

    # -- library entry points ---------------------------------------------------------------
    async def start_server(self, client_connected_cb, host=None, port=None, **kwargs):
        addr = (host, port)
        if addr in self.listeners or addr in self.bind_fail:
            raise OSError(98, f'address already in use {addr}')
        server = SimServer(self, addr, client_connected_cb)
        self.listeners[addr] = server
        return server

    async def open_connection(self, host=None, port=None, **kwargs):
        world = self.world
        loop = world.loop
        if not isinstance(port, int) or not 0 <= port <= 65535:
            # what socket / getaddrinfo do for a port a peer announced outside the 16 bit range (the protocol
            # field is 32 bits wide): not an OSError
            raise OverflowError('bind(): port must be 0-65535.')
        future = loop.create_future()
        entry = (host, port, future)
        self.unresolved_connects.append(entry)
        future.add_done_callback(lambda f: self.unresolved_connects.remove(entry))
        addr = self._resolve(host, port)
        self.connect_log.append((round(loop.time(), 6), host, port))
        route = self.routes.get(addr)
        target = self.listeners.get(addr)
        if route is None and target is None:
            route = self.routes.get((host, None), self.default_route)
        if route == 'hang':
            ev = None   # never completes
        else:
            def fire():
                if future.done():
                    return
                tgt = self.listeners.get(addr)
                if route == 'refuse' or tgt is None or (isinstance(tgt, SimServer) and not tgt.is_serving()):
                    future.set_exception(ConnectionRefusedError(111, f'connect call failed {addr}'))
                    return
                future.set_result(self._establish(addr, tgt))
            ev = world.post(EnvEvent('connect', f'connect:{host}:{port}', fire, chan=None, losable=self.losable))
        try:
            return await future
        except BaseException:
            if ev is not None:
                world.cancel_event(ev)
            if future.done() and not future.cancelled() and future.exception() is None:
                # cancelled in the iteration the connect completed: the socket is
                # garbage (real asyncio closes it when the transport is collected)
                _reader, writer = future.result()
                writer.transport.abort()
            raise

    def _establish(self, addr, target):
        loop = self.world.loop
        cid = len(self.conns) + 1
        conn = SimConn(self, cid, addr)
        self.conns.append(conn)
        client_sock = (self.local_ip, self._ephemeral())
        server_sock = (addr[0] if addr[0] != '0.0.0.0' else self.local_ip, addr[1])
        # connecting side (always library code)
        reader = asyncio.StreamReader(limit=2 ** 16, loop=loop)
        protocol = asyncio.StreamReaderProtocol(reader, loop=loop)
        transport = MemTransport(self, conn, 0, client_sock, server_sock)
        transport.set_protocol(protocol)
        conn.ends[0] = transport
        protocol.connection_made(transport)
        writer = asyncio.StreamWriter(transport, protocol, reader, loop)
        if isinstance(target, ActorListener):
            end = ActorEndpoint(self, conn, 1, server_sock, client_sock, None)
            conn.ends[1] = end
            end.handler = target.handler_factory(end)
            conn.label = f'c{cid}:{getattr(end.handler, "name", "actor")}'
            end.handler.on_connected(end)
        else:
            conn.accepted = False
            conn.label = f'c{cid}:lib'

            def accept():
                if conn.side_closed[1]:
                    return
                sreader = asyncio.StreamReader(limit=2 ** 16, loop=loop)
                sprotocol = asyncio.StreamReaderProtocol(sreader, target.cb, loop=loop)
                stransport = MemTransport(self, conn, 1, server_sock, client_sock)
                stransport.set_protocol(sprotocol)
                conn.ends[1] = stransport
                conn.accepted = True
                sprotocol.connection_made(stransport)
                if self.on_accept is not None:
                    self.on_accept(conn, stransport)
            self.world.post(EnvEvent('accept', f'accept:{conn.label}', accept, chan=(cid, 'accept'), holdable=False))
        return reader, writer

    # -- scripted side entry points ------------------------------------------------------------
    def listen_actor(self, ip, port, handler_factory):
        self.listeners[(ip, port)] = ActorListener(handler_factory)

    def actor_connect(self, handler, from_ip: str, to_port: int, to_ip: str = '0.0.0.0') -> Optional[ActorEndpoint]:
        """A scripted peer connects to a library listening connection at once
        (the accept callback runs as an environment event).  Returns None if
        nobody listens."""
        addr = self._resolve(to_ip, to_port)
        target = self.listeners.get(addr)
        if not isinstance(target, SimServer) or not target.is_serving():
            return None
        loop = self.world.loop
        cid = len(self.conns) + 1
        conn = SimConn(self, cid, addr)
        self.conns.append(conn)
        client_sock = (from_ip, self._ephemeral())
        server_sock = (self.local_ip, addr[1])
        end = ActorEndpoint(self, conn, 0, client_sock, server_sock, handler)
        conn.ends[0] = end
        conn.accepted = False
        conn.label = f'c{cid}:{getattr(handler, "name", "actor")}>lib'

        def accept():
            if conn.side_closed[1]:
                return
            sreader = asyncio.StreamReader(limit=2 ** 16, loop=loop)
            sprotocol = asyncio.StreamReaderProtocol(sreader, target.cb, loop=loop)
            stransport = MemTransport(self, conn, 1, server_sock, client_sock)
            stransport.set_protocol(sprotocol)
            conn.ends[1] = stransport
            conn.accepted = True
            sprotocol.connection_made(stransport)
            if self.on_accept is not None:
                self.on_accept(conn, stransport)
        self.world.post(EnvEvent('accept', f'accept:{conn.label}', accept, chan=(cid, 'accept'), holdable=False))
        return end

    # -- inspection --------------------------------------------------------------------------------
    def open_library_transports(self) -> list[MemTransport]:
        out = []
        for conn in self.conns:
            for end in conn.ends:
                if isinstance(end, MemTransport) and not end._closing:
                    out.append(end)
        return out


class ActorHandler:
    """Base class of scripted connection handlers"""
    name = 'actor'

    def on_connected(self, end: ActorEndpoint):
        pass

    def on_data(self, end: ActorEndpoint, data: bytes):
        pass

    def on_eof(self, end: ActorEndpoint):
        end.close()

    def on_reset(self, end: ActorEndpoint):
        pass
