"""Check runner: fans scenarios out to worker processes, merges coverage,
classifies violations against known_findings.json, writes evidence + replays."""
from __future__ import annotations
import importlib
import json
import multiprocessing as mp
import os
import random
import sys
import time
import traceback
from typing import Any

ROOT = os.path.dirname(os.path.dirname(os.path.abspath(__file__)))
_OUT = os.environ.get('VERIF_OUT_DIR') or ROOT   # diverted when checks run against a mutant
EVIDENCE_DIR = os.path.join(_OUT, 'evidence')
REPLAY_DIR = os.path.join(_OUT, 'replays')
FINDINGS_FILE = os.path.join(ROOT, 'known_findings.json')


def load_findings(pid: str) -> list[dict]:
    try:
        with open(FINDINGS_FILE) as fh:
            data = json.load(fh)
    except FileNotFoundError:
        return []
    return [f for f in data.get('findings', []) if f.get('property') == pid]


def _worker(args):
    modname, params, tier = args
    try:
        mod = importlib.import_module(modname)
        t0 = time.time()
        out = mod.run_scenario(params, tier)
        out['wall'] = time.time() - t0
        out['params'] = params
        return out
    except BaseException as exc:  # noqa
        return {'harness_error': f"{type(exc).__name__}: {exc}\n{traceback.format_exc()}", 'params': params}


def _init_worker():
    # workers must not inherit a half-configured logging / gc state
    import gc
    gc.collect()
    gc.freeze()


def run_check(modname: str, tier: str, seed: int, workers: int = 0) -> int:
    mod = importlib.import_module(modname)
    pid = mod.PROPERTY
    level = mod.LEVEL
    t0 = time.time()
    if hasattr(mod, 'self_check'):
        mod.self_check()
    scenarios = list(mod.scenarios(tier))
    n_scen = len(scenarios)
    order = list(range(n_scen))
    random.Random(seed).shuffle(order)
    # heavy scenarios first when the harness can say so
    if hasattr(mod, 'weight'):
        order.sort(key=lambda i: -mod.weight(scenarios[i], tier))
    workers = workers or int(os.environ.get('VERIF_WORKERS', '0')) or min(16, os.cpu_count() or 4)
    workers = max(1, min(workers, n_scen))
    jobs = [(modname, scenarios[i], tier) for i in order]
    results = []
    if workers == 1:
        for j in jobs:
            results.append(_worker(j))
    else:
        ctx = mp.get_context('fork')
        with ctx.Pool(workers, initializer=_init_worker) as pool:
            chunk = max(1, min(16, n_scen // (workers * 16)))
            for out in pool.imap_unordered(_worker, jobs, chunksize=chunk):
                results.append(out)
    # deterministic merge order
    results.sort(key=lambda r: json.dumps(r.get('params'), sort_keys=True, default=repr))

    cov: dict[str, Any] = {
        'scenarios': n_scen, 'evaluations': 0, 'states': 0, 'transitions': 0,
        'traces_validated_against_impl': 0, 'caps_hit': 0,
    }
    outcomes: set = set()
    nontrivial: set = set()
    samples: list = []
    violations: list[dict] = []
    harness_errors: list[str] = []
    bounds: list[int] = []
    exhaustive = True
    extra: dict[str, Any] = {}
    for r in results:
        if 'harness_error' in r:
            harness_errors.append(f"{r['params']}: {r['harness_error']}")
            continue
        cov['evaluations'] += r.get('executions', 0)
        cov['traces_validated_against_impl'] += r.get('executions', 0)
        cov['states'] += r.get('states', 0)
        cov['transitions'] += r.get('transitions', 0)
        if r.get('capped'):
            cov['caps_hit'] += 1
            exhaustive = False
        if 'bound' in r:
            bounds.append(r['bound'])
        for o in r.get('outcomes', []):
            outcomes.add(o)
        for o in r.get('nontrivial', []):
            nontrivial.add(o)
        if len(samples) < 3 and r.get('samples'):
            samples.append({'scenario': r['params'], 'case': r['samples'][0]})
        for k, v in r.get('extra', {}).items():
            if isinstance(v, (int, float)):
                extra[k] = extra.get(k, 0) + v
        for v in r.get('violations', []):
            v = dict(v)
            v['scenario'] = r['params']
            violations.append(v)
    cov['distinct_outcomes'] = len(outcomes)
    cov['distinct_nontrivial'] = len(nontrivial) if nontrivial else len(outcomes)
    cov['rule'] = getattr(mod, 'RULE', '')
    cov['samples'] = samples or [{'note': 'no sample recorded'}]
    cov['exhaustive'] = bool(exhaustive and getattr(mod, 'EXHAUSTIVE_WITHIN_BOUND', True) and not harness_errors)
    if bounds:
        cov['deviation_bound_completed'] = min(bounds)
    cov.update(extra)
    if hasattr(mod, 'coverage_note'):
        cov['explanation'] = mod.coverage_note(tier)

    # classify violations
    known = load_findings(pid)
    open_known = [f for f in known if f.get('status') == 'open']
    reported: list[dict] = []
    seen_known: dict[str, dict] = {}
    seen_sigs: set = set()
    for v in violations:
        sig = v.get('signature') or v.get('clause')
        match = None
        for f in open_known:
            if _sig_matches(f, sig):
                match = f
                break
        if match is not None:
            seen_known[match['signature']] = match
            continue
        if sig in seen_sigs:
            continue
        seen_sigs.add(sig)
        reported.append(v)

    os.makedirs(EVIDENCE_DIR, exist_ok=True)
    wall = time.time() - t0
    evidence = {
        'property_id': pid, 'tier': tier, 'seed': seed, 'level': level,
        'coverage': cov,
        'assumptions': list(getattr(mod, 'ASSUMPTIONS', [])),
        'wall_s': round(wall, 3),
        'violations': len(reported),
        'known_findings_reproduced': sorted(seen_known),
    }
    with open(os.path.join(EVIDENCE_DIR, f'{pid}.json'), 'w') as fh:
        json.dump(evidence, fh, indent=1, default=repr)

    for f in open_known:
        mark = 'reproduced' if f['signature'] in seen_known else 'not exercised by this tier'
        print(f"KNOWN-FINDING: property={pid} {f.get('what', f['signature'])} [{mark}]")
    print(f"{pid} {tier}: scenarios={n_scen} executions={cov['evaluations']} states={cov['states']} "
          f"transitions={cov['transitions']} distinct_outcomes={cov['distinct_outcomes']} "
          f"bound={cov.get('deviation_bound_completed')} caps={cov['caps_hit']} wall={wall:.1f}s")
    if harness_errors:
        print(f"HARNESS-ERROR property={pid} ({len(harness_errors)} scenarios)", file=sys.stderr)
        for h in harness_errors[:3]:
            print(h, file=sys.stderr)
        return 2
    if reported:
        os.makedirs(REPLAY_DIR, exist_ok=True)
        for n, v in enumerate(reported[:10]):
            path = os.path.join(REPLAY_DIR, f'{pid}-{n}.json')
            with open(path, 'w') as fh:
                json.dump({'property': pid, 'module': modname, 'tier': tier, **v}, fh, indent=1, default=repr)
            print(f"VIOLATION property={pid} replay={path}")
            print(f"  clause: {v.get('clause')} — {str(v.get('detail'))[:300]}")
            print(f"  signature: {v.get('signature')}")
            print(f"  scenario: {str(v.get('scenario'))[:400]} deviations: {v.get('deviations')}")
        return 1
    return 0


def _sig_matches(finding: dict, sig: str) -> bool:
    fs = finding['signature']
    if finding.get('match') == 'prefix':
        return sig.startswith(fs)
    return sig == fs


def replay(path: str) -> int:
    with open(path) as fh:
        data = json.load(fh)
    mod = importlib.import_module(data['module'])
    out = mod.replay(data['scenario'], data.get('choices', []), data.get('tier', 'quick'))
    print(json.dumps(out, indent=1, default=repr))
    return 1 if out.get('violations') else 0
