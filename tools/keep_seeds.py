#!/usr/bin/env python3
"""keep_seeds.py <results.jsonl>... : copies confirmed seeded defects into /verif/seeded/<name>/ with the
validation record (what was run, what the check reported) merged into meta.json"""
import json, os, shutil, sys
for path in sys.argv[1:]:
    for line in open(path):
        line = line.strip()
        if not line.startswith('{'):
            continue
        r = json.loads(line)
        seed = r['seed']
        name = os.path.basename(seed)
        ok = r.get('demo_without_patch_exit') == 0 and r.get('demo_with_patch_exit') not in (0, None) \
            and 'passed' in r.get('suite', '') and 'failed' not in r.get('suite', '')
        if not ok:
            print(f"NOT KEPT {name}: {r}")
            continue
        dst = os.path.join('/verif/seeded', name)
        prev = None
        if os.path.exists(os.path.join(dst, 'meta.json')):
            try:
                prev = json.load(open(os.path.join(dst, 'meta.json'))).get('validation')
                first = json.load(open(os.path.join(dst, 'meta.json'))).get('first_validation')
            except Exception:
                prev = first = None
        else:
            first = None
        os.makedirs(dst, exist_ok=True)
        for f in os.listdir(seed):
            if os.path.isfile(os.path.join(seed, f)) and os.path.getsize(os.path.join(seed, f)) < 200000:
                shutil.copy(os.path.join(seed, f), dst)
        meta = json.load(open(os.path.join(dst, 'meta.json')))
        meta['validation'] = {
            'ran': 'tools/validate_seed.sh: demo on clean worktree (exit %d), demo with patch (exit %d), repository suite with patch (%s), ./check %s --tier quick against the patched sources' % (
                r['demo_without_patch_exit'], r['demo_with_patch_exit'], r['suite'], r['property']),
            'check_exit': r['check_exit'],
            'detected_by_quick_check': r['check_exit'] == 1,
            'check_violation': r.get('check_violation', ''),
        }
        if first or prev:
            meta['first_validation'] = first or prev
        json.dump(meta, open(os.path.join(dst, 'meta.json'), 'w'), indent=1)
        print(f"kept {name}: detected={r['check_exit'] == 1}")
