#!/usr/bin/env python3
"""Regenerates the generated blocks of DESIGN.md (between <!-- BEGIN GENERATED x --> / <!-- END GENERATED x -->):
findings  : from known_findings.json
seeds     : from seeded/*/meta.json and seeded/RECHECK.jsonl
coverage  : from evidence/*.json
"""
import glob
import json
import os
import re

ROOT = '/verif'


def findings():
    d = json.load(open(os.path.join(ROOT, 'known_findings.json')))
    rows = ['| property | status | commit in /repo | what failed (signature the check reports) |', '|---|---|---|---|']
    for e in sorted(d['findings'], key=lambda e: (e['property'], e.get('commit', ''))):
        what = e['what'].replace('|', '\\|')
        rows.append(f"| {e['property']} | {e['status']} | {e.get('commit', '—')} | {what} (`{e['signature']}`) |")
    return '\n'.join(rows)


def seeds():
    recheck = {}
    p = os.path.join(ROOT, 'seeded', 'RECHECK.jsonl')
    if os.path.exists(p):
        for line in open(p):
            line = line.strip()
            if line.startswith('{'):
                try:
                    r = json.loads(line)
                except Exception:
                    continue
                recheck[r['seed']] = r
    rows = ['| seed | change (one line) | first run of the quick check | current quick check | reported as |', '|---|---|---|---|---|']
    for d in sorted(glob.glob(os.path.join(ROOT, 'seeded', '*', 'meta.json'))):
        name = os.path.basename(os.path.dirname(d))
        m = json.load(open(d))
        first = m.get('first_validation') or m.get('validation') or {}
        r = recheck.get(name, {})
        now = 'caught' if r.get('detected') else ('MISSED' if r else 'n/a')
        if m.get('triage') and not r.get('detected'):
            now = 'silent (not reachable through the real code, see triage in meta.json)'
        if r.get('error'):
            now = r['error']
        fv = r.get('first_violation', '') or ''
        clause = ''
        mm = re.search(r'clause: ([a-z0-9\-]+)', fv)
        if mm:
            clause = mm.group(1)
        summary = re.sub(r'\s+', ' ', m.get('summary', ''))[:170].replace('|', '\\|')
        rows.append(f"| {name} | {summary} | {'caught' if first.get('detected_by_quick_check') else 'missed'} | {now} | {clause} |")
    return '\n'.join(rows)


def coverage():
    rows = ['| property | tier | scenarios | executions | states | transitions | distinct outcomes | deviation bound completed | caps | wall s |',
            '|---|---|---|---|---|---|---|---|---|---|']
    for f in sorted(glob.glob(os.path.join(ROOT, 'evidence', 'C*.json'))):
        e = json.load(open(f))
        c = e['coverage']
        rows.append(f"| {e['property_id']} | {e['tier']} | {c.get('scenarios')} | {c.get('evaluations')} | {c.get('states')} | "
                    f"{c.get('transitions')} | {c.get('distinct_outcomes')} | {c.get('deviation_bound_completed', '—')} | "
                    f"{c.get('caps_hit')} | {e.get('wall_s')} |")
    return '\n'.join(rows)


def main():
    p = os.path.join(ROOT, 'DESIGN.md')
    s = open(p).read()
    for name, fn in (('findings', findings), ('seeds', seeds), ('coverage', coverage)):
        pat = re.compile(rf'(<!-- BEGIN GENERATED {name} -->\n).*?(<!-- END GENERATED {name} -->)', re.S)
        if pat.search(s):
            s = pat.sub(lambda m: m.group(1) + fn() + '\n' + m.group(2), s)
    open(p, 'w').write(s)


if __name__ == '__main__':
    main()
