#!/bin/bash
# all_quick.sh <seed> [tier] : every registered check once with VERIF_SEED=<seed>, evidence to a scratch directory;
# prints one line per check (exit code, wall time, summary line) — used for the "silent on the unchanged tree" passes
SEED="${1:-0}"; TIER="${2:-quick}"
OUT=$(mktemp -d /tmp/allq-XXXX)
for i in $(seq -w 1 20); do
  P="C$i"
  S=$(date +%s)
  R=$(cd /verif && VERIF_SEED=$SEED VERIF_OUT_DIR=$OUT timeout 7200 ./check $P --tier $TIER 2>&1); RC=$?
  E=$(( $(date +%s) - S ))
  echo "$P seed=$SEED tier=$TIER exit=$RC ${E}s $(echo "$R" | grep -E "^$P $TIER:" | tail -1 | cut -c1-160) viol=$(echo "$R" | grep -c '^VIOLATION') known=$(echo "$R" | grep -c '^KNOWN-FINDING')"
done
rm -rf "$OUT"
