#!/bin/bash
# validate_seed.sh <seed-dir> <property-id> [tier]
# Confirms a seeded defect in a scratch worktree: demo passes without / fails with the patch, the
# repository suite still passes with it, and runs the property's check against the patched sources.
set -u
SEED="$(cd "$1" && pwd)"; PID="$2"; TIER="${3:-quick}"
WT="/tmp/vs-$$-$(basename "$SEED")"
OUT="/tmp/vs-out-$$-$(basename "$SEED")"
git -C /repo worktree add --detach "$WT" HEAD -q || exit 3
cleanup() { git -C /repo worktree remove --force "$WT" 2>/dev/null; rm -rf "$OUT"; }
trap cleanup EXIT
DEMO_CMD=$(python3 -c "import json,sys; print(json.load(open('$SEED/meta.json'))['demo_cmd'])")
rundemo() { ( cd "$SEED" && SRC="$WT/src" PYTHONPATH="$WT/src" timeout 300 bash -c "$DEMO_CMD" >/dev/null 2>&1 ); echo $?; }
D0=$(rundemo)
if ! git -C "$WT" apply "$SEED/patch.diff"; then echo "{\"seed\":\"$SEED\",\"error\":\"patch does not apply\"}"; exit 3; fi
D1=$(rundemo)
SUITE=$(cd "$WT" && flock /tmp/aioslsk-suite.lock env PYTHONPATH="$WT/src" /venv/bin/python -m pytest -q -p no:cacheprovider --timeout=900 -x 2>&1 | grep -E "passed|failed|error" | tail -1)
mkdir -p "$OUT"
CHK=$(cd /verif && VERIF_REPO_SRC="$WT/src" VERIF_OUT_DIR="$OUT" ./check "$PID" --tier "$TIER" 2>&1); RC=$?
VIOL=$(echo "$CHK" | grep -A3 "^VIOLATION" | head -8 | tr '\n' '|' | tr '"' "'")
python3 - "$SEED" "$PID" "$D0" "$D1" "$SUITE" "$RC" "$VIOL" <<'PY'
import json,sys
seed,pid,d0,d1,suite,rc,viol=sys.argv[1:]
print(json.dumps({'seed':seed,'property':pid,'demo_without_patch_exit':int(d0),'demo_with_patch_exit':int(d1),
  'suite':suite,'check_exit':int(rc),'check_violation':viol[:700]}))
PY
