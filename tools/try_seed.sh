#!/bin/bash
# try_seed.sh <seed-dir> <property-id> [tier] : runs only the check against the patched sources
SEED="$(cd "$1" && pwd)"; PID="$2"; TIER="${3:-quick}"
WT="/tmp/ts-$$"; OUT="/tmp/ts-out-$$"
git -C /repo worktree add --detach "$WT" HEAD -q || exit 3
trap 'git -C /repo worktree remove --force "$WT" 2>/dev/null; rm -rf "$OUT"' EXIT
git -C "$WT" apply "$SEED/patch.diff" || { echo "patch does not apply"; exit 3; }
mkdir -p "$OUT"
cd /verif && VERIF_REPO_SRC="$WT/src" VERIF_OUT_DIR="$OUT" ./check "$PID" --tier "$TIER" 2>&1 | grep -E "^VIOLATION|clause|scenario|quick:|thorough:|HARNESS" | head -${4:-8}
