#!/bin/bash
# recheck_seeds.sh [tier] [glob] : runs every kept seeded defect against the current quick check of its property and writes
# /verif/seeded/RECHECK.jsonl (one line per seed: detected or not, first violation line)
TIER="${1:-quick}"; PAT="${2:-*}"
OUTF=/verif/seeded/RECHECK.jsonl
: > "$OUTF.tmp"
if [ "$PAT" != "*" ] && [ -f "$OUTF" ]; then
  # keep the lines of the seeds that are not rechecked now
  while IFS= read -r line; do
    n=$(echo "$line" | sed -n 's/^{"seed":"\([^"]*\)".*/\1/p')
    case "$n" in $PAT) ;; *) echo "$line" >> "$OUTF.tmp";; esac
  done < "$OUTF"
fi
for d in /verif/seeded/$PAT/; do
  name=$(basename "$d")
  [ -f "$d/patch.diff" ] || continue
  pid=$(python3 -c "import json;print(json.load(open('$d/meta.json'))['property'])")
  WT="/tmp/rs-$$"; OUT="/tmp/rs-out-$$"
  git -C /repo worktree add --detach "$WT" HEAD -q || continue
  if git -C "$WT" apply "$d/patch.diff" 2>/dev/null; then
    mkdir -p "$OUT"
    CHK=$(cd /verif && VERIF_REPO_SRC="$WT/src" VERIF_OUT_DIR="$OUT" timeout 1800 ./check "$pid" --tier "$TIER" 2>&1); RC=$?
    V=$(echo "$CHK" | grep -A1 "^VIOLATION" | sed -n 2p | cut -c1-300 | tr '"' "'")
    echo "{\"seed\":\"$name\",\"property\":\"$pid\",\"tier\":\"$TIER\",\"check_exit\":$RC,\"detected\":$([ $RC -eq 1 ] && echo true || echo false),\"first_violation\":\"$V\"}" >> "$OUTF.tmp"
  else
    echo "{\"seed\":\"$name\",\"property\":\"$pid\",\"error\":\"patch does not apply to HEAD\"}" >> "$OUTF.tmp"
  fi
  git -C /repo worktree remove --force "$WT" 2>/dev/null; rm -rf "$OUT"
done
mv "$OUTF.tmp" "$OUTF"
