#!/usr/bin/env python3
"""prints the seeded-defect prompt for a property: mkprompt.py C12 [n] [tag]"""
import json, sys
pid = sys.argv[1]
n = int(sys.argv[2]) if len(sys.argv) > 2 else 3
tag = sys.argv[3] if len(sys.argv) > 3 else 'a'
for line in open('/verif/properties.jsonl'):
    p = json.loads(line)
    if p['id'] == pid:
        break
text = f"{p['title']}.\n    {p['statement']}\n    (It must hold {p['quantifier']['text']}.)"
tmpl = open('/verif/tools/seed_prompt.md').read()
print(tmpl.format(WT=f'/tmp/wt-{pid}{tag}', PROPERTY=text, N=n, OUT=f'/tmp/seeded-out/{pid}{tag}', ID=pid))
