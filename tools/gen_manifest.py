#!/usr/bin/env python3
"""Regenerates /verif/MANIFEST.json from the table below; a property is claimed
iff its harness module vt/h/<id>.py exists."""
import json
import os

ROOT = os.path.dirname(os.path.dirname(os.path.abspath(__file__)))

SCHED = "stateless deviation-bounded schedule enumeration of the real code under a controlled asyncio loop (implementation-level model checking)"
BFS = "explicit-state breadth-first search over operation histories of the real objects with canonical-state deduplication (implementation-level model checking)"
ENUM = "bounded exhaustive input enumeration of the real code against an independent reference model"

CHECKS = {
    'C01': dict(engine='vt.enum', cat='exploration', technique=ENUM,
                text="every message class x every presence pattern x boundary field alphabets (<=2 simultaneous deviations quick, cartesian thorough), plain/obfuscated/compressed, compared byte-for-byte with an independent reference codec driven by a pinned layout table",
                note="trusted: the pinned layout table (self-checked against the repository's own golden vectors on every run); value alphabets are boundary sets, not all 2^32 values"),
    'C02': dict(engine='vt.enum+vt.sched', cat='fault_enumeration', technique="exhaustive single/double mutation and segmentation enumeration fed through the real reader loops in the controlled loop",
                text="all single mutations (truncation, length/count lies, bad strings, corrupt zlib, unknown codes) of every message class, all short frame sequences over a hostile alphabet and all one/two-cut segmentations, fed to the real server/peer/distributed reader loops; sentinel delivery, reader liveness and connection isolation checked on each",
                note="trusted: mutation alphabet is finite (not all byte strings); memory exhaustion by huge lengths not explored"),
    'C03': dict(engine='vt.bfs+vt.sched', cat='model_checking', technique=BFS + " + all interleavings of concurrent operation pairs/triples",
                text="BFS to closure over all operation histories of a real Transfer (both directions) checking every observed edge against the pinned graph and refusals for side effects; all interleavings of 2-3 concurrent operations compared with some sequential order of a reference state machine",
                note="trusted: pinned transfer graph (from docs + state.py at the pin); sentinel tasks stand for transfer tasks"),
    'C04': dict(engine='vt.sched', cat='fault_enumeration', technique="exhaustive fault-point enumeration (every cut byte / kind / segmentation) on the real transfer path in the controlled loop",
                text="every cut point x cut kind x size x segmentation x limiter for real downloader vs scripted uploader and real uploader vs scripted downloader; dishonest peers; file content and resume offset compared with the source",
                note="trusted: TCP abstracted to in-order chunks + EOF/reset; sizes from a boundary set"),
    'C05': dict(engine='vt.sched', cat='model_checking', technique=SCHED,
                text="slot limit, one-per-user and priority invariants evaluated at every iteration boundary of every schedule within the deviation bound for enumerated user populations and event histories",
                note="trusted: scripted downloader peers; populations <=3 users quick"),
    'C06': dict(engine='vt.sched', cat='model_checking', technique=SCHED,
                text="abort/pause/remove placed at every boundary of the negotiation, with slow/failing connects; per-transfer task multiplicity and post-return silence checked on every schedule",
                note="trusted: scripted peer/server; <=3 transfers"),
    'C07': dict(engine='vt.bfs', cat='model_checking', technique=BFS,
                text="BFS over share-operation histories on a real directory tree; in every state every query of the term alphabet is compared with a reference matcher and reference index",
                note="trusted: reference matcher written from SOULSEEK.rst query rules; tree <=14 files quick"),
    'C08': dict(engine='vt.sched', cat='model_checking',
                technique="exhaustive enumeration of configurations, change histories up to a depth bound and placements of a second change at every iteration boundary, executed on the real client under a controlled asyncio loop (implementation-level model checking)",
                text="all share-mode/friend/block/phrase/nested-directory configurations x asking user x request kinds x path variants, all change histories (<=2 quick, <=3 thorough) applied in every upload state followed by the management cycles, and a second change placed at every boundary of the cycle processing the first; frames received by scripted peers and the upload states are the observation",
                note="trusted: scripted peers; 3 users"),
    'C09': dict(engine='vt.enum+vt.sched', cat='model_checking', technique=ENUM + " + schedule enumeration of concurrent download start-ups",
                text="all remote paths over the component alphabet x all strategy chains x directory contents; all interleavings of 2-3 equally named downloads with lazily delivered executor jobs",
                note="trusted: component alphabet, tmpfs scratch directory"),
    'C10': dict(engine='vt.sched', cat='model_checking', technique=SCHED,
                text="every way a connection can end x incoming/outgoing/server x plain/obfuscated, all schedules within the deviation bound; monotone state sequence, single CLOSED, no traffic after CLOSED and registry exactness at every quiescent boundary",
                note="trusted: VLoop ordering, in-memory transport semantics"),
    'C11': dict(engine='vt.sched', cat='model_checking', technique=SCHED,
                text="connect mode x direct outcome x indirect outcome x port/obfuscation configuration x cancellation at every boundary, all schedules within the deviation bound; result, leftovers and waiter tables checked",
                note="trusted: scripted server/peer; asyncio.wait set order accepted either way"),
    'C12': dict(engine='vt.sched', cat='model_checking', technique=SCHED,
                text="every schedule within the deviation bound (early / reorder / hold-until-deadline incl. same iteration / loss) of every enumerated waiter-set x message-sequence scenario is executed on the real Network and reader loops and compared with a reference model of pending waiters",
                note="trusted: VLoop reproduces asyncio's _run_once ordering; TCP abstracted to in-order chunks; waiter sets <=3 quick / <=4 thorough, message sequences <=3"),
    'C13': dict(engine='vt.bfs', cat='model_checking', technique=BFS,
                text="BFS over event histories of the real DistributedNetwork with scripted peers/server; tree invariants and truthfulness of the last advertised position checked in every state",
                note="trusted: scripted peers; 3 peers quick"),
    'C14': dict(engine='vt.bfs', cat='model_checking', technique=BFS,
                text="tree shapes x carriers x users x tickets x queries with children joining/leaving between requests; frames decoded by each scripted child/parent/asker compared with the reference",
                note="trusted: reference matcher of C07; scripted peers"),
    'C15': dict(engine='vt.sched', cat='model_checking', technique=SCHED,
                text="all track/untrack call sequences x server answer menus, each call placed at every boundary within the deviation bound; AddUser/RemoveUser frames at the scripted server compared with the fold of the reason sets",
                note="trusted: scripted server; 2 users"),
    'C16': dict(engine='vt.sched', cat='model_checking', technique=SCHED,
                text="settings combinations (pairwise-complete quick, full product thorough) x login outcomes; server EOF / reset / requested disconnect / stop() injected at every iteration boundary of login and the post-login burst, while idle, after an earlier loss and with background work pending, reconnect on/off, server unreachable for a while; frames at the scripted server, session events, sockets and tasks checked",
                note="trusted: scripted server; full SoulSeekClient in the controlled loop"),
    'C17': dict(engine='vt.bfs', cat='model_checking', technique=BFS,
                text="all single/pair/triple transfer records over state x direction x field alphabet and write/mutate/remove/read histories through the real shelve cache and load_data",
                note="trusted: dbm backend of this image; scratch directory"),
    'C18': dict(engine='vt.sched', cat='model_checking', technique=SCHED + " + exhaustive op-sequence enumeration of the Timer API against a reference model",
                text="every schedule within the deviation bound of every op sequence over search kinds / wishlist rounds / removals / replies (live, stale, unknown, duplicate) on the real SearchManager, and every Timer op sequence up to the length bound",
                note="trusted: VLoop ordering; same-instant removal vs expiry accepted either way; ticket wrap exercised by moving the real generator's counter"),
    'C19': dict(engine='vt.bfs', cat='model_checking', technique=BFS,
                text="BFS to closure over server notification histories on the real RoomManager/UserManager for a small universe, deeper bounded search on the full alphabet; projection compared with a reference fold after every event",
                note="trusted: reference fold written from the property statement; 1-2 rooms, 2-3 users"),
    'C20': dict(engine='vt.bfs', cat='model_checking', technique="exhaustive enumeration of request schedules (offsets, think times, limit changes) of the real rate limiter under a virtual clock",
                text="all schedules over the gap/limit alphabets for 1..3 connections sharing the real bucket; window upper bound and per-request waiting bound checked on every grant",
                note="trusted: virtual monotonic clock; gap alphabet"),
}


def main():
    props = [json.loads(line) for line in open(os.path.join(ROOT, 'properties.jsonl'))]
    checks = []
    na = []
    engines = {}
    for p in props:
        pid = p['id']
        meta = CHECKS[pid]
        if os.path.exists(os.path.join(ROOT, 'vt', 'h', pid.lower() + '.py')):
            checks.append({
                'property_id': pid,
                'quick_cmd': f'./check {pid} --tier quick',
                'thorough_cmd': f'./check {pid} --tier thorough',
                'evidence_file': f'evidence/{pid}.json',
                'replay_cmd_template': './check replay {path}',
                'engine': meta['engine'],
                'level_claimed': {'category': meta['cat'], 'text': meta['text'], 'design_ref': f'DESIGN.md §7 {pid}'},
                'level_note': meta['note'],
                'technique': meta['technique'],
            })
            for e in meta['engine'].split('+'):
                engines.setdefault(e, []).append(pid)
        else:
            na.append({'property_id': pid, 'reason': 'check not built yet (work in progress, see DESIGN.md §9)'})
    kinds = {
        'vt.sched': ('vt/loop.py vt/world.py vt/simnet.py vt/actors.py vt/explore.py vt/clientworld.py vt/transferworld.py',
                     'controlled asyncio world (virtual loop, in-memory network, scripted actors) + deviation-bounded stateless schedule explorer over the real library code'),
        'vt.bfs': ('vt/bfs.py', 'explicit-state search over operation histories of the real objects with canonical-state deduplication'),
        'vt.enum': ('vt/h/c01.py vt/h/c02.py vt/h/c09.py vt/ref/wire.py', 'bounded exhaustive input enumeration against independent reference models'),
    }
    manifest = {
        'version': 1,
        'setup_cmd': 'true',
        'hooks': {
            'guard': 'AIOSLSK_VERIF',
            'enable': 'no source hooks are needed: the harness intercepts asyncio.open_connection/start_server, the time module name inside aioslsk modules and the loop\'s run_in_executor from outside; AIOSLSK_VERIF is reserved and unused',
            'baseline_off_cmd': 'cd /repo && /venv/bin/python -m pytest -ra -q -p no:cacheprovider --timeout=900 --continue-on-collection-errors',
            'source_commits': [],
            'add_only': True,
        },
        'engines': [{'name': e, 'path': kinds[e][0], 'serves_properties': v, 'kind_free_text': kinds[e][1]} for e, v in engines.items()],
        'checks': checks,
        'not_applicable': na,
        'notes': 'All checks drive the real aioslsk code from /repo/src (working tree); exit 2 = harness error. See DESIGN.md.',
    }
    with open(os.path.join(ROOT, 'MANIFEST.json'), 'w') as fh:
        json.dump(manifest, fh, indent=1)
    print(f"claimed: {[c['property_id'] for c in checks]}")


if __name__ == '__main__':
    main()
